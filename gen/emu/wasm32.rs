//! Emulation of the WebAssembly simd128 intrinsics glam's `wasm32` back-end uses, so that the back-end's
//! own source can be executed on this host.  Semantics follow the WebAssembly SIMD specification:
//!  * f32x4 add/sub/mul/div/sqrt/abs/neg: lane-wise IEEE-754 binary32, round to nearest even;
//!  * `f32x4_pmin(a, b)` = `b < a ? b : a`, `f32x4_pmax(a, b)` = `a < b ? b : a` (pseudo-min/max);
//!  * `f32x4_nearest` rounds to nearest with ties to even; floor / ceil / trunc as named;
//!  * comparisons give all-ones / all-zeros lanes, false on unordered (`ne` true on unordered);
//!  * `v128_bitselect(a, b, m)` = (a & m) | (b & !m); `v128_andnot(a, b)` = a & !b;
//!  * `i32x4_shuffle::<..>(a, b)` picks 32-bit lanes from the concatenation of a and b;
//!  * `u32x4_bitmask` collects the top bit of each 32-bit lane.
#[derive(Clone, Copy, Debug)]
#[repr(C, align(16))]
pub struct v128(pub [u32; 4]);

#[inline(always)]
fn lf(a: v128, i: usize) -> f32 {
    f32::from_bits(a.0[i])
}
#[inline(always)]
fn mkf(v: [f32; 4]) -> v128 {
    v128([v[0].to_bits(), v[1].to_bits(), v[2].to_bits(), v[3].to_bits()])
}
#[inline(always)]
pub const fn f32x4(a: f32, b: f32, c: f32, d: f32) -> v128 {
    v128([a.to_bits(), b.to_bits(), c.to_bits(), d.to_bits()])
}
#[inline(always)]
pub const fn u32x4(a: u32, b: u32, c: u32, d: u32) -> v128 {
    v128([a, b, c, d])
}
#[inline(always)]
pub fn f32x4_splat(a: f32) -> v128 {
    mkf([a; 4])
}
#[inline(always)]
pub fn f32x4_extract_lane<const L: usize>(a: v128) -> f32 {
    lf(a, L)
}
#[inline(always)]
pub fn f32x4_replace_lane<const L: usize>(a: v128, v: f32) -> v128 {
    let mut r = a;
    r.0[L] = v.to_bits();
    r
}
#[inline(always)]
pub fn i32x4_shuffle<const I0: usize, const I1: usize, const I2: usize, const I3: usize>(a: v128, b: v128) -> v128 {
    let pick = |i: usize| -> u32 {
        assert!(i < 8);
        if i < 4 { a.0[i] } else { b.0[i - 4] }
    };
    v128([pick(I0), pick(I1), pick(I2), pick(I3)])
}
macro_rules! lanewise2 {
    ($($name:ident = |$x:ident, $y:ident| $e:expr;)*) => {$(
        #[inline(always)]
        pub fn $name(a: v128, b: v128) -> v128 {
            mkf(core::array::from_fn(|i| { let ($x, $y) = (lf(a, i), lf(b, i)); $e }))
        }
    )*};
}
/// WebAssembly fmin / fmax: NaN if either is NaN, -0 < +0
#[inline(always)]
fn wmin(x: f32, y: f32) -> f32 {
    if x.is_nan() || y.is_nan() { f32::NAN } else if x == 0.0 && y == 0.0 { if x.is_sign_negative() { x } else { y } } else if x < y { x } else { y }
}
#[inline(always)]
fn wmax(x: f32, y: f32) -> f32 {
    if x.is_nan() || y.is_nan() { f32::NAN } else if x == 0.0 && y == 0.0 { if x.is_sign_negative() { y } else { x } } else if x > y { x } else { y }
}
lanewise2! {
    f32x4_add = |x, y| x + y;
    f32x4_sub = |x, y| x - y;
    f32x4_mul = |x, y| x * y;
    f32x4_div = |x, y| x / y;
    f32x4_pmin = |x, y| if y < x { y } else { x };
    f32x4_pmax = |x, y| if x < y { y } else { x };
    f32x4_min = |x, y| wmin(x, y);
    f32x4_max = |x, y| wmax(x, y);
}
#[inline(always)]
fn nearest(x: f32) -> f32 {
    if !x.is_finite() || x.abs() >= 8388608.0 {
        return x;
    }
    let r = if (x - x.trunc()).abs() == 0.5 { 2.0 * (x / 2.0).round() } else { x.round() };
    if r == 0.0 { 0.0f32.copysign(x) } else { r }
}
macro_rules! lanewise1 {
    ($($name:ident = |$x:ident| $e:expr;)*) => {$(
        #[inline(always)]
        pub fn $name(a: v128) -> v128 {
            mkf(core::array::from_fn(|i| { let $x = lf(a, i); $e }))
        }
    )*};
}
lanewise1! {
    f32x4_abs = |x| x.abs();
    f32x4_neg = |x| -x;
    f32x4_sqrt = |x| x.sqrt();
    f32x4_floor = |x| x.floor();
    f32x4_ceil = |x| x.ceil();
    f32x4_trunc = |x| x.trunc();
    f32x4_nearest = |x| nearest(x);
}
macro_rules! cmp {
    ($($name:ident = |$x:ident, $y:ident| $e:expr;)*) => {$(
        #[inline(always)]
        pub fn $name(a: v128, b: v128) -> v128 {
            v128(core::array::from_fn(|i| { let ($x, $y) = (lf(a, i), lf(b, i)); if $e { u32::MAX } else { 0 } }))
        }
    )*};
}
cmp! {
    f32x4_eq = |x, y| x == y;
    f32x4_ne = |x, y| x != y;
    f32x4_lt = |x, y| x < y;
    f32x4_le = |x, y| x <= y;
    f32x4_gt = |x, y| x > y;
    f32x4_ge = |x, y| x >= y;
}
#[inline(always)]
pub fn v128_and(a: v128, b: v128) -> v128 {
    v128(core::array::from_fn(|i| a.0[i] & b.0[i]))
}
#[inline(always)]
pub fn v128_or(a: v128, b: v128) -> v128 {
    v128(core::array::from_fn(|i| a.0[i] | b.0[i]))
}
#[inline(always)]
pub fn v128_xor(a: v128, b: v128) -> v128 {
    v128(core::array::from_fn(|i| a.0[i] ^ b.0[i]))
}
#[inline(always)]
pub fn v128_not(a: v128) -> v128 {
    v128(core::array::from_fn(|i| !a.0[i]))
}
#[inline(always)]
pub fn v128_andnot(a: v128, b: v128) -> v128 {
    v128(core::array::from_fn(|i| a.0[i] & !b.0[i]))
}
#[inline(always)]
pub fn v128_bitselect(v1: v128, v2: v128, c: v128) -> v128 {
    v128(core::array::from_fn(|i| (v1.0[i] & c.0[i]) | (v2.0[i] & !c.0[i])))
}
#[inline(always)]
pub fn u32x4_bitmask(a: v128) -> u8 {
    ((a.0[0] >> 31) | ((a.0[1] >> 31) << 1) | ((a.0[2] >> 31) << 2) | ((a.0[3] >> 31) << 3)) as u8
}
#[inline(always)]
pub fn i32x4_bitmask(a: v128) -> u8 {
    u32x4_bitmask(a)
}
#[inline(always)]
pub fn v128_any_true(a: v128) -> bool {
    a.0.iter().any(|x| *x != 0)
}
#[inline(always)]
pub unsafe fn v128_store(p: *mut v128, a: v128) {
    core::ptr::write_unaligned(p, a)
}
#[inline(always)]
pub unsafe fn v128_load(p: *const v128) -> v128 {
    core::ptr::read_unaligned(p)
}
