//! Emulation of the AArch64 NEON intrinsics glam's `neon` back-end uses, so that the back-end's own
//! source can be executed on this host.  Semantics follow the Arm ARM (A64 Advanced SIMD):
//!  * arithmetic (`fadd/fsub/fmul/fdiv/fabs/fneg`) is lane-wise IEEE-754 binary32, round to nearest even
//!    (FPCR default in Rust programs: no flush-to-zero, no default-NaN);
//!  * `vminq/vmaxq` = FMIN/FMAX: a NaN operand gives a NaN, -0 < +0;
//!  * `vminnmvq/vmaxnmvq` = FMINNMV/FMAXNMV: IEEE minNum/maxNum reduction (a quiet NaN is ignored
//!    in favour of a number);
//!  * `vrndnq` = FRINTN (ties to even), `vrndmq` = FRINTM (floor), `vrndpq` = FRINTP (ceil),
//!    `vrndq` = FRINTZ (trunc), `vrndaq` = FRINTA (ties away from zero);
//!  * `vfmaq_f32(a, b, c)` = FMLA: a + b*c with a single rounding; `vmlsq_f32(a, b, c)` = a - b*c, which
//!    Rust's stdarch lowers to a separate multiply and subtract (two roundings);
//!  * `vaddvq_f32` = FADDP, FADDP: (v0 + v1) + (v2 + v3);
//!  * comparisons give all-ones / all-zeros lanes, false on unordered;
//!  * permutations (`vext`, `vzip1/2`, `vuzp1/2`, `vtrn1/2`, `vrev64`) as tabulated in the Arm ARM.
#![allow(clippy::missing_safety_doc)]

#[derive(Clone, Copy, Debug)]
#[repr(C, align(16))]
pub struct float32x4_t(pub [f32; 4]);
#[derive(Clone, Copy, Debug)]
#[repr(C, align(16))]
pub struct uint32x4_t(pub [u32; 4]);
#[derive(Clone, Copy, Debug)]
#[repr(C, align(16))]
pub struct uint64x2_t(pub [u64; 2]);

#[inline(always)]
fn f(v: [f32; 4]) -> float32x4_t {
    float32x4_t(v)
}
#[inline(always)]
fn u(v: [u32; 4]) -> uint32x4_t {
    uint32x4_t(v)
}
macro_rules! lanewise2 {
    ($($name:ident = |$x:ident, $y:ident| $e:expr;)*) => {$(
        #[inline(always)]
        pub unsafe fn $name(a: float32x4_t, b: float32x4_t) -> float32x4_t {
            f(core::array::from_fn(|i| { let ($x, $y) = (a.0[i], b.0[i]); $e }))
        }
    )*};
}
/// FMIN / FMAX: NaN if either operand is NaN; zeros ordered -0 < +0
#[inline(always)]
fn fmin(x: f32, y: f32) -> f32 {
    if x.is_nan() || y.is_nan() {
        f32::NAN
    } else if x == 0.0 && y == 0.0 {
        if x.is_sign_negative() { x } else { y }
    } else if x < y {
        x
    } else {
        y
    }
}
#[inline(always)]
fn fmax(x: f32, y: f32) -> f32 {
    if x.is_nan() || y.is_nan() {
        f32::NAN
    } else if x == 0.0 && y == 0.0 {
        if x.is_sign_negative() { y } else { x }
    } else if x > y {
        x
    } else {
        y
    }
}
/// FMINNM / FMAXNM: IEEE 754-2008 minNum / maxNum
#[inline(always)]
fn fminnm(x: f32, y: f32) -> f32 {
    if x.is_nan() {
        y
    } else if y.is_nan() {
        x
    } else {
        fmin(x, y)
    }
}
#[inline(always)]
fn fmaxnm(x: f32, y: f32) -> f32 {
    if x.is_nan() {
        y
    } else if y.is_nan() {
        x
    } else {
        fmax(x, y)
    }
}
/// FRINTN: round to nearest, ties to even
#[inline(always)]
fn frintn(x: f32) -> f32 {
    if !x.is_finite() || x.abs() >= 8388608.0 {
        return x;
    }
    let r = x.round(); // ties away
    let r = if (x - x.trunc()).abs() == 0.5 { 2.0 * (x / 2.0).round() } else { r };
    // keep the sign of zero results
    if r == 0.0 { 0.0f32.copysign(x) } else { r }
}
lanewise2! {
    vaddq_f32 = |x, y| x + y;
    vsubq_f32 = |x, y| x - y;
    vmulq_f32 = |x, y| x * y;
    vdivq_f32 = |x, y| x / y;
    vminq_f32 = |x, y| fmin(x, y);
    vmaxq_f32 = |x, y| fmax(x, y);
}
macro_rules! lanewise1 {
    ($($name:ident = |$x:ident| $e:expr;)*) => {$(
        #[inline(always)]
        pub unsafe fn $name(a: float32x4_t) -> float32x4_t {
            f(core::array::from_fn(|i| { let $x = a.0[i]; $e }))
        }
    )*};
}
lanewise1! {
    vabsq_f32 = |x| x.abs();
    vnegq_f32 = |x| -x;
    vrndmq_f32 = |x| x.floor();
    vrndpq_f32 = |x| x.ceil();
    vrndq_f32 = |x| x.trunc();
    vrndnq_f32 = |x| frintn(x);
    vrndaq_f32 = |x| x.round();
}
macro_rules! cmp {
    ($($name:ident = |$x:ident, $y:ident| $e:expr;)*) => {$(
        #[inline(always)]
        pub unsafe fn $name(a: float32x4_t, b: float32x4_t) -> uint32x4_t {
            u(core::array::from_fn(|i| { let ($x, $y) = (a.0[i], b.0[i]); if $e { u32::MAX } else { 0 } }))
        }
    )*};
}
cmp! {
    vceqq_f32 = |x, y| x == y;
    vcltq_f32 = |x, y| x < y;
    vcleq_f32 = |x, y| x <= y;
    vcgtq_f32 = |x, y| x > y;
    vcgeq_f32 = |x, y| x >= y;
}
macro_rules! bit2 {
    ($($name:ident = |$x:ident, $y:ident| $e:expr;)*) => {$(
        #[inline(always)]
        pub unsafe fn $name(a: uint32x4_t, b: uint32x4_t) -> uint32x4_t {
            u(core::array::from_fn(|i| { let ($x, $y) = (a.0[i], b.0[i]); $e }))
        }
    )*};
}
bit2! {
    vandq_u32 = |x, y| x & y;
    vorrq_u32 = |x, y| x | y;
    veorq_u32 = |x, y| x ^ y;
}
#[inline(always)]
pub unsafe fn vmvnq_u32(a: uint32x4_t) -> uint32x4_t {
    u(core::array::from_fn(|i| !a.0[i]))
}
#[inline(always)]
pub unsafe fn vbslq_f32(mask: uint32x4_t, a: float32x4_t, b: float32x4_t) -> float32x4_t {
    f(core::array::from_fn(|i| f32::from_bits((a.0[i].to_bits() & mask.0[i]) | (b.0[i].to_bits() & !mask.0[i]))))
}
#[inline(always)]
pub unsafe fn vmulq_n_f32(a: float32x4_t, b: f32) -> float32x4_t {
    f(core::array::from_fn(|i| a.0[i] * b))
}
/// FMLA: a + b * c, fused
#[inline(always)]
pub unsafe fn vfmaq_f32(a: float32x4_t, b: float32x4_t, c: float32x4_t) -> float32x4_t {
    f(core::array::from_fn(|i| b.0[i].mul_add(c.0[i], a.0[i])))
}
/// a - b * c; stdarch: `simd_sub(a, simd_mul(b, c))`
#[inline(always)]
pub unsafe fn vmlsq_f32(a: float32x4_t, b: float32x4_t, c: float32x4_t) -> float32x4_t {
    f(core::array::from_fn(|i| a.0[i] - b.0[i] * c.0[i]))
}
#[inline(always)]
pub unsafe fn vaddvq_f32(a: float32x4_t) -> f32 {
    (a.0[0] + a.0[1]) + (a.0[2] + a.0[3])
}
#[inline(always)]
pub unsafe fn vminnmvq_f32(a: float32x4_t) -> f32 {
    fminnm(fminnm(a.0[0], a.0[1]), fminnm(a.0[2], a.0[3]))
}
#[inline(always)]
pub unsafe fn vmaxnmvq_f32(a: float32x4_t) -> f32 {
    fmaxnm(fmaxnm(a.0[0], a.0[1]), fmaxnm(a.0[2], a.0[3]))
}
// ---- lanes, loads, stores
#[inline(always)]
pub unsafe fn vdupq_n_f32(v: f32) -> float32x4_t {
    f([v; 4])
}
#[inline(always)]
pub unsafe fn vld1q_dup_f32(p: *const f32) -> float32x4_t {
    f([*p; 4])
}
#[inline(always)]
pub unsafe fn vld1q_f32(p: *const f32) -> float32x4_t {
    f(core::array::from_fn(|i| *p.add(i)))
}
#[inline(always)]
pub unsafe fn vld1q_u32(p: *const u32) -> uint32x4_t {
    u(core::array::from_fn(|i| *p.add(i)))
}
#[inline(always)]
pub unsafe fn vst1q_f32(p: *mut f32, a: float32x4_t) {
    for i in 0..4 {
        *p.add(i) = a.0[i];
    }
}
#[inline(always)]
pub unsafe fn vgetq_lane_f32(a: float32x4_t, lane: i32) -> f32 {
    assert!((0..4).contains(&lane));
    a.0[lane as usize]
}
#[inline(always)]
pub unsafe fn vsetq_lane_f32(v: f32, a: float32x4_t, lane: i32) -> float32x4_t {
    assert!((0..4).contains(&lane));
    let mut r = a;
    r.0[lane as usize] = v;
    r
}
#[inline(always)]
pub unsafe fn vgetq_lane_u32(a: uint32x4_t, lane: i32) -> u32 {
    assert!((0..4).contains(&lane));
    a.0[lane as usize]
}
#[inline(always)]
pub unsafe fn vsetq_lane_u32(v: u32, a: uint32x4_t, lane: i32) -> uint32x4_t {
    assert!((0..4).contains(&lane));
    let mut r = a;
    r.0[lane as usize] = v;
    r
}
#[inline(always)]
pub unsafe fn vgetq_lane_u64(a: uint64x2_t, lane: i32) -> u64 {
    assert!((0..2).contains(&lane));
    a.0[lane as usize]
}
#[inline(always)]
pub unsafe fn vsetq_lane_u64(v: u64, a: uint64x2_t, lane: i32) -> uint64x2_t {
    assert!((0..2).contains(&lane));
    let mut r = a;
    r.0[lane as usize] = v;
    r
}
#[inline(always)]
pub unsafe fn vdupq_laneq_f32(a: float32x4_t, lane: i32) -> float32x4_t {
    assert!((0..4).contains(&lane));
    f([a.0[lane as usize]; 4])
}
#[inline(always)]
pub unsafe fn vdups_laneq_f32(a: float32x4_t, lane: i32) -> f32 {
    assert!((0..4).contains(&lane));
    a.0[lane as usize]
}
#[inline(always)]
pub unsafe fn vmuls_laneq_f32(a: f32, b: float32x4_t, lane: i32) -> f32 {
    assert!((0..4).contains(&lane));
    a * b.0[lane as usize]
}
// ---- reinterpretation (little-endian lane order)
#[inline(always)]
pub unsafe fn vreinterpretq_u32_f32(a: float32x4_t) -> uint32x4_t {
    u(core::array::from_fn(|i| a.0[i].to_bits()))
}
#[inline(always)]
pub unsafe fn vreinterpretq_f32_u32(a: uint32x4_t) -> float32x4_t {
    f(core::array::from_fn(|i| f32::from_bits(a.0[i])))
}
#[inline(always)]
pub unsafe fn vreinterpretq_u64_f32(a: float32x4_t) -> uint64x2_t {
    uint64x2_t(core::array::from_fn(|i| (a.0[2 * i].to_bits() as u64) | ((a.0[2 * i + 1].to_bits() as u64) << 32)))
}
#[inline(always)]
pub unsafe fn vreinterpretq_f32_u64(a: uint64x2_t) -> float32x4_t {
    f(core::array::from_fn(|i| f32::from_bits((a.0[i / 2] >> (32 * (i % 2))) as u32)))
}
// ---- permutations
/// EXT: lanes n.. of a followed by the first n lanes of b
#[inline(always)]
pub unsafe fn vextq_f32(a: float32x4_t, b: float32x4_t, n: i32) -> float32x4_t {
    assert!((0..4).contains(&n));
    f(core::array::from_fn(|i| { let k = i + n as usize; if k < 4 { a.0[k] } else { b.0[k - 4] } }))
}
#[inline(always)]
pub unsafe fn vextq_u32(a: uint32x4_t, b: uint32x4_t, n: i32) -> uint32x4_t {
    assert!((0..4).contains(&n));
    u(core::array::from_fn(|i| { let k = i + n as usize; if k < 4 { a.0[k] } else { b.0[k - 4] } }))
}
#[inline(always)]
pub unsafe fn vzip1q_f32(a: float32x4_t, b: float32x4_t) -> float32x4_t {
    f([a.0[0], b.0[0], a.0[1], b.0[1]])
}
#[inline(always)]
pub unsafe fn vzip2q_f32(a: float32x4_t, b: float32x4_t) -> float32x4_t {
    f([a.0[2], b.0[2], a.0[3], b.0[3]])
}
#[inline(always)]
pub unsafe fn vzip2q_u64(a: uint64x2_t, b: uint64x2_t) -> uint64x2_t {
    uint64x2_t([a.0[1], b.0[1]])
}
#[inline(always)]
pub unsafe fn vuzp1q_f32(a: float32x4_t, b: float32x4_t) -> float32x4_t {
    f([a.0[0], a.0[2], b.0[0], b.0[2]])
}
#[inline(always)]
pub unsafe fn vuzp2q_f32(a: float32x4_t, b: float32x4_t) -> float32x4_t {
    f([a.0[1], a.0[3], b.0[1], b.0[3]])
}
#[inline(always)]
pub unsafe fn vtrn1q_f32(a: float32x4_t, b: float32x4_t) -> float32x4_t {
    f([a.0[0], b.0[0], a.0[2], b.0[2]])
}
#[inline(always)]
pub unsafe fn vtrn2q_f32(a: float32x4_t, b: float32x4_t) -> float32x4_t {
    f([a.0[1], b.0[1], a.0[3], b.0[3]])
}
#[inline(always)]
pub unsafe fn vrev64q_f32(a: float32x4_t) -> float32x4_t {
    f([a.0[1], a.0[0], a.0[3], a.0[2]])
}
