#!/usr/bin/env python3
"""emu.py <neon|wasm32> <dest> : mirror the tree under test (VERIF_REPO, default /repo) into <dest> with its
NEON / wasm32 SIMD back-end retargeted at an intrinsic *emulation* (gen/emu/aarch64.rs, gen/emu/wasm32.rs),
so that the back-end's own source runs on this x86-64 host.  Only cfg predicates and the `core::arch`
import paths are rewritten; every other byte of the back-end is the repository's.  Files are rewritten
only when their content changes, so an unchanged tree does not trigger a rebuild."""
import os, re, sys

REPO = os.environ.get("VERIF_REPO", "/repo")
HERE = os.path.dirname(os.path.abspath(__file__))
backend, dest = sys.argv[1], sys.argv[2]
assert backend in ("neon", "wasm32")
on = {"neon": 'target_arch = "aarch64"', "wasm32": 'target_feature = "simd128"'}[backend]
offs = ['target_feature = "sse2"', 'target_arch = "aarch64"', 'target_feature = "simd128"']
offs.remove(on)
arch = {"neon": "aarch64", "wasm32": "wasm32"}[backend]


def retarget(text):
    t = text.replace(on, "glam_emu")
    for o in offs:
        t = t.replace(o, "glam_emu_off")
    return t.replace(f"core::arch::{arch}::", f"crate::emu_{arch}::")


want = {}
for root, dirs, files in os.walk(os.path.join(REPO, "src")):
    for f in files:
        p = os.path.join(root, f)
        rel = os.path.relpath(p, REPO)
        data = open(p, "rb").read()
        if f.endswith(".rs"):
            data = retarget(data.decode()).encode()
        want[rel] = data
want[f"src/emu_{arch}.rs"] = open(os.path.join(HERE, "emu", arch + ".rs"), "rb").read()
want["src/lib.rs"] += f"\n#[cfg(glam_emu)]\n#[allow(non_camel_case_types, non_snake_case, dead_code, clippy::all)]\npub(crate) mod emu_{arch};\n".encode()
ct = open(os.path.join(REPO, "Cargo.toml")).read()
# the copy is a single package: drop the workspace members and the bench targets that are not mirrored
ct = re.sub(r"\[workspace\]\s*members\s*=\s*\[[^\]]*\]", "[workspace]", ct)
ct = re.sub(r"\[\[bench\]\][^\[]*", "", ct)
want["Cargo.toml"] = ct.encode()
for extra in ("build.rs", "README.md"):
    if os.path.exists(os.path.join(REPO, extra)):
        want[extra] = open(os.path.join(REPO, extra), "rb").read()
n = 0
for rel, data in want.items():
    p = os.path.join(dest, rel)
    if os.path.exists(p) and open(p, "rb").read() == data:
        continue
    os.makedirs(os.path.dirname(p), exist_ok=True)
    open(p, "wb").write(data)
    n += 1
# remove mirrored files that no longer exist in the tree
for root, dirs, files in os.walk(os.path.join(dest, "src")):
    for f in files:
        rel = os.path.relpath(os.path.join(root, f), dest)
        if rel not in want:
            os.remove(os.path.join(root, f))
            n += 1
print(f"emu {backend}: {n} files updated in {dest}")
