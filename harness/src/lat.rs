//! Value lattices (DESIGN §2.4). All tables are deterministic and duplicate-free (by bits).

fn dedup_f32(v: Vec<f32>) -> Vec<f32> {
    let mut seen = std::collections::HashSet::new();
    v.into_iter().filter(|x| seen.insert(x.to_bits())).collect()
}
fn dedup_f64(v: Vec<f64>) -> Vec<f64> {
    let mut seen = std::collections::HashSet::new();
    v.into_iter().filter(|x| seen.insert(x.to_bits())).collect()
}

pub const QNAN32: u32 = 0x7FC0_0000;
pub const SNAN32: u32 = 0x7F80_0001;
pub const NNAN32: u32 = 0xFFC1_2345;
pub const QNAN64: u64 = 0x7FF8_0000_0000_0000;
pub const SNAN64: u64 = 0x7FF0_0000_0000_0001;
pub const NNAN64: u64 = 0xFFF8_0001_2345_6789;

/// F32_SPECIAL: signed specials + a few ordinary values + NaNs
pub fn f32_special() -> Vec<f32> {
    let pos: [f32; 27] = [
        0.0,
        f32::from_bits(1),
        f32::from_bits(0x007F_FFFF),
        f32::MIN_POSITIVE,
        1.0,
        f32::from_bits(0x3F7F_FFFF), // 1 - ulp
        f32::from_bits(0x3F80_0001), // 1 + ulp
        0.5,
        0.499_999_97,
        1.5,
        2.5,
        3.5,
        8_388_607.5,  // 2^23 - 0.5
        8_388_608.0,  // 2^23
        8_388_609.0,  // 2^23 + 1
        16_777_216.0, // 2^24
        2_147_483_520.0, // 2^31 - 128
        2_147_483_648.0, // 2^31
        4_294_967_296.0, // 2^32
        1e-20,
        1e20,
        f32::MAX,
        f32::INFINITY,
        3.0,
        7.25,
        1.0 / 3.0,
        4_194_304.5, // 2^22 + 0.5 (tie with spacing 0.5)
    ];
    let mut v = vec![];
    for p in pos {
        v.push(p);
        v.push(-p);
    }
    v.push(f32::from_bits(QNAN32));
    v.push(f32::from_bits(SNAN32));
    v.push(f32::from_bits(NNAN32));
    dedup_f32(v)
}

/// a smaller cut used for ternary products and the quick tier
pub fn f32_small() -> Vec<f32> {
    dedup_f32(vec![
        0.0, -0.0, 1.0, -1.0, 0.5, -2.5, 3.0, -7.25, 1e-20, -1e20, 1e20, f32::MAX, f32::MIN_POSITIVE,
        f32::from_bits(1), f32::INFINITY, f32::NEG_INFINITY, f32::from_bits(QNAN32), f32::from_bits(NNAN32),
        8_388_608.0, -8_388_607.5, 1.0 / 3.0, f32::from_bits(0x3F80_0001), -1.5, 2.0,
    ])
}

pub fn f64_special() -> Vec<f64> {
    let p52 = 4_503_599_627_370_496.0f64;
    let pos: [f64; 28] = [
        0.0,
        f64::from_bits(1),
        f64::from_bits(0x000F_FFFF_FFFF_FFFF),
        f64::MIN_POSITIVE,
        1.0,
        f64::from_bits(0x3FEF_FFFF_FFFF_FFFF),
        f64::from_bits(0x3FF0_0000_0000_0001),
        0.5,
        0.499_999_999_999_999_94,
        1.5,
        2.5,
        3.5,
        p52 - 0.5,
        p52,
        p52 + 1.0,
        p52 * 2.0,
        9_223_372_036_854_775_808.0,     // 2^63
        9_223_372_036_854_774_784.0,     // 2^63 - 1024
        18_446_744_073_709_551_616.0,    // 2^64
        1e-200,
        1e200,
        f64::MAX,
        f64::INFINITY,
        3.0,
        7.25,
        1.0 / 3.0,
        2_147_483_648.5,
        p52 / 2.0 + 0.5,
    ];
    let mut v = vec![];
    for p in pos {
        v.push(p);
        v.push(-p);
    }
    v.push(f64::from_bits(QNAN64));
    v.push(f64::from_bits(SNAN64));
    v.push(f64::from_bits(NNAN64));
    dedup_f64(v)
}

pub fn f64_small() -> Vec<f64> {
    dedup_f64(vec![
        0.0, -0.0, 1.0, -1.0, 0.5, -2.5, 3.0, -7.25, 1e-200, -1e200, 1e200, f64::MAX, f64::MIN_POSITIVE,
        f64::from_bits(1), f64::INFINITY, f64::NEG_INFINITY, f64::from_bits(QNAN64), f64::from_bits(NNAN64),
        4_503_599_627_370_496.0, -4_503_599_627_370_495.5, 1.0 / 3.0, f64::from_bits(0x3FF0_0000_0000_0001), -1.5, 2.0,
    ])
}

const MANT32: [u32; 8] = [0, 1, 0x7F_FFFF, 0x40_0000, 0x55_5555, 0x2A_AAAA, 0x7F_FFFE, 0x20_0000];
/// F32_GRID: sign x every exponent x 8 mantissa shapes = 4096 values (index -> value)
pub fn f32_grid(i: u32) -> f32 {
    debug_assert!(i < 4096);
    let m = MANT32[(i & 7) as usize];
    let e = (i >> 3) & 0xFF;
    let s = i >> 11;
    f32::from_bits((s << 31) | (e << 23) | m)
}
pub const F32_GRID_N: u32 = 4096;

const MANT64: [u64; 16] = [
    0,
    1,
    0xF_FFFF_FFFF_FFFF,
    0x8_0000_0000_0000,
    0x5_5555_5555_5555,
    0xA_AAAA_AAAA_AAAA,
    0xF_FFFF_FFFF_FFFE,
    0x4_0000_0000_0000,
    0x8_0000_0000_0001,
    0x7_FFFF_FFFF_FFFF,
    0x0_0000_8000_0000,
    0x0_0000_0000_0400,
    0xC_0000_0000_0000,
    0x1_2345_6789_ABCD,
    0xE_DCBA_9876_5432,
    0x0_0010_0000_0000,
];
/// F64_GRID: sign x every exponent (2048) x 16 mantissa shapes = 65536 values
pub fn f64_grid(i: u32) -> f64 {
    debug_assert!(i < 65536);
    let m = MANT64[(i & 15) as usize];
    let e = ((i >> 4) & 0x7FF) as u64;
    let s = (i >> 15) as u64;
    f64::from_bits((s << 63) | (e << 52) | m)
}
pub const F64_GRID_N: u32 = 65536;

/// four fixed bijections of u32 (lane-rotation trick): lane i of counter b receives phi_i(b)
#[inline]
pub fn phi(lane: usize, b: u32) -> u32 {
    match lane {
        0 => b,
        1 => (b ^ 0xA5A5_5A5A).rotate_left(13),
        2 => b.wrapping_mul(0x9E37_79B1),
        _ => (!b).swap_bytes(),
    }
}

/// boundary lattice for an integer type of `bits` width (as i128 values, clipped to range)
pub fn int_lattice(bits: u32, signed: bool) -> Vec<i128> {
    let (min, max): (i128, i128) = if signed {
        (-(1i128 << (bits - 1)), (1i128 << (bits - 1)) - 1)
    } else {
        (0, (1i128 << bits) - 1)
    };
    let mut v: Vec<i128> = vec![min, min + 1, min + 2, -1, 0, 1, 2, 3, 5, 7, max - 2, max - 1, max];
    for k in [1u32, 2, 3, 4, 7, 8, 15, 16, 31, 32, 63] {
        if k < bits {
            let p = 1i128 << k;
            v.extend_from_slice(&[p - 1, p, p + 1, -p - 1, -p, -p + 1]);
        }
    }
    // shift counts at and beyond the width, and a few ordinary values
    let w = bits as i128;
    v.extend_from_slice(&[w - 1, w, w + 1, 2 * w, -w, 10, -10, 100, -100, 46341, 3_037_000_500, -46341]);
    v.retain(|x| *x >= min && *x <= max);
    v.sort();
    v.dedup();
    v
}

/// integers at and next to the rounding ties of f32 (24-bit) and f64 (53-bit) significands: where an
/// int -> float cast rounds to even, and where rounding twice (through the wider float) differs
pub fn int_rounding_boundaries(bits: u32, signed: bool) -> Vec<i128> {
    let (min, max): (i128, i128) = if signed { (-(1i128 << (bits - 1)), (1i128 << (bits - 1)) - 1) } else { (0, (1i128 << bits) - 1) };
    let mut v = vec![];
    for m in [24u32, 53] {
        for k in m..bits {
            let p = 1i128 << k;
            let h = 1i128 << (k - m);
            for mult in [1i128, 3] {
                for d in [-1i128, 0, 1] {
                    let x = p + mult * h + d;
                    v.push(x);
                    v.push(-x);
                    // plus a sticky bit far below the tie: invisible after a first rounding to 53 bits
                    if k >= 54 && d == 1 { v.push(x + (1 << 20)); v.push(-(x + (1 << 20))); }
                }
            }
        }
    }
    v.retain(|x| *x >= min && *x <= max);
    v
}

/// quick-tier cut of the boundary lattice
pub fn int_lattice_small(bits: u32, signed: bool) -> Vec<i128> {
    let (min, max): (i128, i128) = if signed {
        (-(1i128 << (bits - 1)), (1i128 << (bits - 1)) - 1)
    } else {
        (0, (1i128 << bits) - 1)
    };
    let w = bits as i128;
    let h = 1i128 << (bits / 2);
    let mut v: Vec<i128> = vec![min, min + 1, -h, -3, -1, 0, 1, 2, 3, h - 1, h, h + 1, w - 1, w, w + 1, max - 1, max, -w, 10, -7];
    v.retain(|x| *x >= min && *x <= max);
    v.sort();
    v.dedup();
    v
}

/// mixed radix decode: returns digits for the given radices (least significant first)
#[inline]
pub fn digits<const K: usize>(mut idx: u64, radix: [u64; K]) -> [usize; K] {
    let mut d = [0usize; K];
    for k in 0..K {
        d[k] = (idx % radix[k]) as usize;
        idx /= radix[k];
    }
    d
}

/// distinct NaN-payload / finite tags
#[inline]
pub fn tag_nan32(k: u32) -> f32 {
    f32::from_bits(0x7FC0_0000 | (0x1000 + k * 0x111) | ((k & 1) << 31))
}
#[inline]
pub fn tag_nan64(k: u32) -> f64 {
    f64::from_bits(0x7FF8_0000_0000_0000 | (0x1_0000_0000 + (k as u64) * 0x1_0101) | (((k & 1) as u64) << 63))
}
