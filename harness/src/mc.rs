//! Engine E2: explicit-state search (stateright BFS) over transitions that call the real glam code.
use crate::rep::Report;
use stateright::{Checker, Model};
use std::fmt::Debug;
use std::hash::Hash;
use std::time::Instant;

/// Run a BFS to completion (the model bounds itself through `within_boundary` or by being finite).
/// All `always` properties are evaluated in every reached state. A discovery becomes a violation
/// whose detail holds the action path (the replayable artefact) and `explain(last_state)`.
pub fn run_bfs<M>(rep: &mut Report, name: &str, site: &str, model: M, fixpoint: bool, explain: impl Fn(&M, &M::State) -> (String, String))
where
    M: Model + Send + Sync + 'static,
    M::State: Hash + Eq + Clone + Debug + Send + Sync + 'static,
    M::Action: Clone + Debug + PartialEq + Send + Sync + 'static,
{
    if let Some((s, _)) = &rep.args.replay {
        if s != name {
            return;
        }
    } else if let Some(o) = &rep.args.only {
        if !name.contains(o.as_str()) {
            return;
        }
    }
    let t0 = Instant::now();
    let threads = std::thread::available_parallelism().map(|n| n.get()).unwrap_or(4);
    let checker = model.checker().threads(threads).spawn_bfs().join();
    let wall = t0.elapsed().as_secs_f64();
    rep.search(name, checker.state_count() as u64, checker.unique_state_count() as u64, checker.max_depth() as u64, fixpoint, wall);
    for (pname, path) in checker.discoveries() {
        let last = path.last_state().clone();
        let (op, msg) = explain(checker.model(), &last);
        let states = path.clone().into_states();
        let actions = path.into_actions();
        let detail = format!("property `{pname}` violated after actions {:?} from init state {:?}: {msg}", actions, states.first());
        if rep.args.replay.is_some() {
            println!("REPLAY {name}: {detail}");
        }
        rep.violation(name, 0, &format!("{site}::{op}"), detail);
    }
}
