//! Reference mathematics in f64 (and exact integers), written independently of glam's sources:
//! textbook formulas only. Matrices are column-major `Mx { n, a }` with a[c*n + r].
use crate::rep::Acc;

pub const EPS32: f64 = 1.1920929e-7; // f32::EPSILON
pub const EPS64: f64 = 2.220446049250313e-16;

#[derive(Clone, Copy, Debug, PartialEq)]
pub struct Mx {
    pub n: usize,
    pub a: [f64; 16],
}

impl Mx {
    pub fn zero(n: usize) -> Mx {
        Mx { n, a: [0.0; 16] }
    }
    pub fn ident(n: usize) -> Mx {
        let mut m = Mx::zero(n);
        for i in 0..n {
            m.a[i * n + i] = 1.0;
        }
        m
    }
    pub fn from_cols(n: usize, v: &[f64]) -> Mx {
        let mut m = Mx::zero(n);
        m.a[..n * n].copy_from_slice(&v[..n * n]);
        m
    }
    #[inline]
    pub fn at(&self, r: usize, c: usize) -> f64 {
        self.a[c * self.n + r]
    }
    #[inline]
    pub fn set(&mut self, r: usize, c: usize, v: f64) {
        self.a[c * self.n + r] = v;
    }
    pub fn cols(&self) -> &[f64] {
        &self.a[..self.n * self.n]
    }
    pub fn mul(&self, o: &Mx) -> Mx {
        let n = self.n;
        let mut m = Mx::zero(n);
        for c in 0..n {
            for r in 0..n {
                let mut s = 0.0;
                for k in 0..n {
                    s += self.at(r, k) * o.at(k, c);
                }
                m.set(r, c, s);
            }
        }
        m
    }
    /// |A| |B| entrywise-absolute product: the scale S of each entry of A*B
    pub fn mul_abs(&self, o: &Mx) -> Mx {
        let n = self.n;
        let mut m = Mx::zero(n);
        for c in 0..n {
            for r in 0..n {
                let mut s = 0.0;
                for k in 0..n {
                    s += (self.at(r, k) * o.at(k, c)).abs();
                }
                m.set(r, c, s);
            }
        }
        m
    }
    pub fn mulv(&self, v: &[f64]) -> Vec<f64> {
        let n = self.n;
        (0..n).map(|r| (0..n).map(|c| self.at(r, c) * v[c]).sum()).collect()
    }
    pub fn mulv_abs(&self, v: &[f64]) -> Vec<f64> {
        let n = self.n;
        (0..n).map(|r| (0..n).map(|c| (self.at(r, c) * v[c]).abs()).sum()).collect()
    }
    pub fn transpose(&self) -> Mx {
        let n = self.n;
        let mut m = Mx::zero(n);
        for c in 0..n {
            for r in 0..n {
                m.set(c, r, self.at(r, c));
            }
        }
        m
    }
    fn minor(&self, dr: usize, dc: usize) -> Mx {
        let n = self.n;
        let mut m = Mx::zero(n - 1);
        let mut cc = 0;
        for c in 0..n {
            if c == dc {
                continue;
            }
            let mut rr = 0;
            for r in 0..n {
                if r == dr {
                    continue;
                }
                m.set(rr, cc, self.at(r, c));
                rr += 1;
            }
            cc += 1;
        }
        m
    }
    /// Laplace expansion; also returns the sum of absolute values of the n! terms (the scale S)
    pub fn det_scale(&self) -> (f64, f64) {
        let n = self.n;
        if n == 1 {
            return (self.a[0], self.a[0].abs());
        }
        let mut d = 0.0;
        let mut s = 0.0;
        for c in 0..n {
            let (md, ms) = self.minor(0, c).det_scale();
            let sign = if c % 2 == 0 { 1.0 } else { -1.0 };
            d += sign * self.at(0, c) * md;
            s += self.at(0, c).abs() * ms;
        }
        (d, s)
    }
    pub fn det(&self) -> f64 {
        self.det_scale().0
    }
    /// adjugate (transpose of the cofactor matrix) and per-entry scale
    pub fn adj(&self) -> (Mx, Mx) {
        let n = self.n;
        let mut m = Mx::zero(n);
        let mut sc = Mx::zero(n);
        if n == 1 {
            m.a[0] = 1.0;
            sc.a[0] = 1.0;
            return (m, sc);
        }
        for r in 0..n {
            for c in 0..n {
                let (d, s) = self.minor(r, c).det_scale();
                let sign = if (r + c) % 2 == 0 { 1.0 } else { -1.0 };
                m.set(c, r, sign * d);
                sc.set(c, r, s);
            }
        }
        (m, sc)
    }
    pub fn inverse(&self) -> Mx {
        let (adj, _) = self.adj();
        let d = self.det();
        let mut m = adj;
        for k in 0..self.n * self.n {
            m.a[k] /= d;
        }
        m
    }
    pub fn fro(&self) -> f64 {
        self.cols().iter().map(|x| x * x).sum::<f64>().sqrt()
    }
    pub fn max_abs(&self) -> f64 {
        self.cols().iter().fold(0.0, |m, x| m.max(x.abs()))
    }
    pub fn scale(&self, s: f64) -> Mx {
        let mut m = *self;
        for k in 0..16 {
            m.a[k] *= s;
        }
        m
    }
    /// embed an (n x n) matrix into the top-left of an identity of size k
    pub fn embed(&self, k: usize) -> Mx {
        let mut m = Mx::ident(k);
        for c in 0..self.n.min(k) {
            for r in 0..self.n.min(k) {
                m.set(r, c, self.at(r, c));
            }
        }
        m
    }
    pub fn block(&self, k: usize) -> Mx {
        let mut m = Mx::zero(k);
        for c in 0..k {
            for r in 0..k {
                m.set(r, c, self.at(r, c));
            }
        }
        m
    }
}

// ------------------------------------------------------------------------------------ exact integers
pub fn det_i(n: usize, a: &[i128]) -> i128 {
    if n == 1 {
        return a[0];
    }
    if n == 2 {
        return a[0] * a[3] - a[2] * a[1];
    }
    let mut d = 0i128;
    for c in 0..n {
        let m = minor_i(n, a, 0, c);
        let sign = if c % 2 == 0 { 1 } else { -1 };
        d += sign * a[c * n] * det_i(n - 1, &m);
    }
    d
}
pub fn minor_i(n: usize, a: &[i128], dr: usize, dc: usize) -> Vec<i128> {
    let mut m = Vec::with_capacity((n - 1) * (n - 1));
    for c in 0..n {
        if c == dc {
            continue;
        }
        for r in 0..n {
            if r == dr {
                continue;
            }
            m.push(a[c * n + r]);
        }
    }
    m
}
pub fn adj_i(n: usize, a: &[i128]) -> Vec<i128> {
    let mut m = vec![0i128; n * n];
    if n == 1 {
        m[0] = 1;
        return m;
    }
    for r in 0..n {
        for c in 0..n {
            let sign = if (r + c) % 2 == 0 { 1 } else { -1 };
            // adj[c][r] (row c, col r) = cofactor(r, c)
            m[r * n + c] = sign * det_i(n - 1, &minor_i(n, a, r, c));
        }
    }
    m
}
pub fn mul_i(n: usize, a: &[i128], b: &[i128]) -> Vec<i128> {
    let mut m = vec![0i128; n * n];
    for c in 0..n {
        for r in 0..n {
            for k in 0..n {
                m[c * n + r] += a[k * n + r] * b[c * n + k];
            }
        }
    }
    m
}

// ------------------------------------------------------------------------------------ vectors
pub fn dot(a: &[f64], b: &[f64]) -> f64 {
    a.iter().zip(b).map(|(x, y)| x * y).sum()
}
pub fn dot_abs(a: &[f64], b: &[f64]) -> f64 {
    a.iter().zip(b).map(|(x, y)| (x * y).abs()).sum()
}
pub fn norm(a: &[f64]) -> f64 {
    // scaled to avoid overflow/underflow in the reference itself
    let m = a.iter().fold(0.0f64, |m, x| m.max(x.abs()));
    if m == 0.0 || !m.is_finite() {
        return m;
    }
    m * a.iter().map(|x| (x / m) * (x / m)).sum::<f64>().sqrt()
}
pub fn cross(a: &[f64], b: &[f64]) -> [f64; 3] {
    [a[1] * b[2] - a[2] * b[1], a[2] * b[0] - a[0] * b[2], a[0] * b[1] - a[1] * b[0]]
}
pub fn sub(a: &[f64], b: &[f64]) -> Vec<f64> {
    a.iter().zip(b).map(|(x, y)| x - y).collect()
}
pub fn add(a: &[f64], b: &[f64]) -> Vec<f64> {
    a.iter().zip(b).map(|(x, y)| x + y).collect()
}
pub fn scale(a: &[f64], s: f64) -> Vec<f64> {
    a.iter().map(|x| x * s).collect()
}
pub fn normalize(a: &[f64]) -> Vec<f64> {
    let n = norm(a);
    a.iter().map(|x| x / n).collect()
}
/// angle between two vectors, well conditioned everywhere: 2*atan2(|a/|a| - b/|b||, |a/|a| + b/|b||)
pub fn angle(a: &[f64], b: &[f64]) -> f64 {
    let (u, v) = (normalize(a), normalize(b));
    2.0 * norm(&sub(&u, &v)).atan2(norm(&add(&u, &v)))
}

// ------------------------------------------------------------------------------------ quaternions [x, y, z, w]
pub fn qmul(a: &[f64], b: &[f64]) -> [f64; 4] {
    let (ax, ay, az, aw) = (a[0], a[1], a[2], a[3]);
    let (bx, by, bz, bw) = (b[0], b[1], b[2], b[3]);
    [
        aw * bx + ax * bw + ay * bz - az * by,
        aw * by - ax * bz + ay * bw + az * bx,
        aw * bz + ax * by - ay * bx + az * bw,
        aw * bw - ax * bx - ay * by - az * bz,
    ]
}
pub fn qconj(a: &[f64]) -> [f64; 4] {
    [-a[0], -a[1], -a[2], a[3]]
}
/// rotation matrix of a unit quaternion (3x3)
pub fn qmat(q: &[f64]) -> Mx {
    let (x, y, z, w) = (q[0], q[1], q[2], q[3]);
    let mut m = Mx::zero(3);
    m.set(0, 0, 1.0 - 2.0 * (y * y + z * z));
    m.set(0, 1, 2.0 * (x * y - z * w));
    m.set(0, 2, 2.0 * (x * z + y * w));
    m.set(1, 0, 2.0 * (x * y + z * w));
    m.set(1, 1, 1.0 - 2.0 * (x * x + z * z));
    m.set(1, 2, 2.0 * (y * z - x * w));
    m.set(2, 0, 2.0 * (x * z - y * w));
    m.set(2, 1, 2.0 * (y * z + x * w));
    m.set(2, 2, 1.0 - 2.0 * (x * x + y * y));
    m
}
/// vector part of q (v,0) q^-1 for arbitrary (non-zero) q, divided by nothing: q v conj(q)
pub fn qsandwich(q: &[f64], v: &[f64]) -> [f64; 3] {
    let p = qmul(&qmul(q, &[v[0], v[1], v[2], 0.0]), &qconj(q));
    [p[0], p[1], p[2]]
}
pub fn qnormalize(q: &[f64]) -> [f64; 4] {
    let n = norm(q);
    [q[0] / n, q[1] / n, q[2] / n, q[3] / n]
}
/// Rodrigues: counter-clockwise rotation by `angle` about the unit `axis`
pub fn rodrigues(axis: &[f64], angle: f64) -> Mx {
    let (s, c) = angle.sin_cos();
    let (x, y, z) = (axis[0], axis[1], axis[2]);
    let t = 1.0 - c;
    let mut m = Mx::zero(3);
    m.set(0, 0, t * x * x + c);
    m.set(0, 1, t * x * y - s * z);
    m.set(0, 2, t * x * z + s * y);
    m.set(1, 0, t * x * y + s * z);
    m.set(1, 1, t * y * y + c);
    m.set(1, 2, t * y * z - s * x);
    m.set(2, 0, t * x * z - s * y);
    m.set(2, 1, t * y * z + s * x);
    m.set(2, 2, t * z * z + c);
    m
}
pub fn rot_axis(k: usize, angle: f64) -> Mx {
    let mut a = [0.0; 3];
    a[k] = 1.0;
    rodrigues(&a, angle)
}
/// quaternion of the rotation by angle about unit axis
pub fn q_axis_angle(axis: &[f64], angle: f64) -> [f64; 4] {
    let (s, c) = (angle * 0.5).sin_cos();
    [axis[0] * s, axis[1] * s, axis[2] * s, c]
}
/// rotation distance between two rotation matrices: Frobenius norm of the difference
pub fn mat_dist(a: &Mx, b: &Mx) -> f64 {
    let n = a.n;
    (0..n * n).map(|k| (a.a[k] - b.a[k]).powi(2)).sum::<f64>().sqrt()
}

// ------------------------------------------------------------------------------------ envelope comparison
/// |got - want| <= bound, with NaN/inf handled (want finite is a precondition of callers)
#[inline]
pub fn env(acc: &mut Acc, site: &str, got: f64, want: f64, bound: f64, ctx: &dyn Fn() -> String) -> bool {
    let err = (got - want).abs();
    let b = bound.max(f64::MIN_POSITIVE);
    if err <= b {
        acc.ratio(err / b);
        true
    } else {
        acc.fail(site, format!("{} got={:e} want={:e} err={:e} bound={:e}", ctx(), got, want, err, bound));
        false
    }
}
pub fn env_vec(acc: &mut Acc, site: &str, got: &[f64], want: &[f64], bound: &[f64], ctx: &dyn Fn() -> String) -> bool {
    let mut ok = true;
    for i in 0..want.len() {
        let err = (got[i] - want[i]).abs();
        let b = bound[i.min(bound.len() - 1)].max(f64::MIN_POSITIVE);
        if err <= b {
            acc.ratio(err / b);
        } else {
            ok = false;
        }
    }
    if !ok {
        acc.fail(site, format!("{} got={:?} want={:?} bound={:?}", ctx(), got, want, bound));
    }
    ok
}
