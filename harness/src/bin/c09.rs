//! C09 — rotation constructors and all 24 Euler orders follow the documented conventions (E1).
//! Reference: f64 Rodrigues matrix / product of the three single-axis rotations in the order
//! spelled by the variant's *name* (intrinsic left to right, Ex reversed) — written independently
//! of src/euler.rs.
#![allow(clippy::all)]
use glam::*;
use harness::fam::*;
use harness::refm::*;
use harness::rep::*;
use serde_json::json;
use std::f64::consts::PI;

const ORDERS: [EulerRot; 24] = [
    EulerRot::ZYX, EulerRot::ZXY, EulerRot::YXZ, EulerRot::YZX, EulerRot::XYZ, EulerRot::XZY,
    EulerRot::ZYZ, EulerRot::ZXZ, EulerRot::YXY, EulerRot::YZY, EulerRot::XYX, EulerRot::XZX,
    EulerRot::ZYXEx, EulerRot::ZXYEx, EulerRot::YXZEx, EulerRot::YZXEx, EulerRot::XYZEx, EulerRot::XZYEx,
    EulerRot::ZYZEx, EulerRot::ZXZEx, EulerRot::YXYEx, EulerRot::YZYEx, EulerRot::XYXEx, EulerRot::XZXEx,
];

/// (axes, extrinsic) parsed from the variant name
fn parse(order: EulerRot) -> ([usize; 3], bool) {
    let name = format!("{:?}", order);
    let ex = name.ends_with("Ex");
    let l: Vec<usize> = name.bytes().take(3).map(|c| (c - b'X') as usize).collect();
    ([l[0], l[1], l[2]], ex)
}
fn euler_ref(order: EulerRot, a: f64, b: f64, c: f64) -> Mx {
    let (ax, ex) = parse(order);
    let (r1, r2, r3) = (rot_axis(ax[0], a), rot_axis(ax[1], b), rot_axis(ax[2], c));
    if ex {
        r3.mul(&r2).mul(&r1)
    } else {
        r1.mul(&r2).mul(&r3)
    }
}
/// distance from the singular configuration of the middle angle
fn gimbal_distance(order: EulerRot, b: f64) -> f64 {
    let (ax, _) = parse(order);
    if ax[0] == ax[2] {
        b.sin().abs()
    } else {
        b.cos().abs()
    }
}

/// a glam value seen as a 3x3 rotation (f64) + whether everything outside the 3x3 block is exactly trivial
trait AsRot: Copy + Send + Sync {
    const NAME: &'static str;
    const EPS: f64;
    fn rot(&self) -> (Mx, bool);
}
fn cols3(c: &[f64]) -> Mx {
    Mx::from_cols(3, c)
}
macro_rules! as_rot_q {
    ($T:ident, $eps:expr) => {
        impl AsRot for $T {
            const NAME: &'static str = stringify!($T);
            const EPS: f64 = $eps;
            fn rot(&self) -> (Mx, bool) {
                let a = self.to_array();
                let q = [a[0] as f64, a[1] as f64, a[2] as f64, a[3] as f64];
                // unit within 4 eps, then read as the rotation of the normalised quaternion
                let n = norm(&q);
                (qmat(&qnormalize(&q)), (n - 1.0).abs() <= 4.0 * $eps)
            }
        }
    };
}
as_rot_q!(Quat, EPS32);
as_rot_q!(DQuat, EPS64);
macro_rules! as_rot_m3 {
    ($T:ident, $eps:expr) => {
        impl AsRot for $T {
            const NAME: &'static str = stringify!($T);
            const EPS: f64 = $eps;
            fn rot(&self) -> (Mx, bool) {
                let c: Vec<f64> = self.to_cols_array().iter().map(|x| *x as f64).collect();
                (cols3(&c), true)
            }
        }
    };
}
as_rot_m3!(Mat3, EPS32);
as_rot_m3!(Mat3A, EPS32);
as_rot_m3!(DMat3, EPS64);
macro_rules! as_rot_m4 {
    ($T:ident, $eps:expr) => {
        impl AsRot for $T {
            const NAME: &'static str = stringify!($T);
            const EPS: f64 = $eps;
            fn rot(&self) -> (Mx, bool) {
                let c: Vec<f64> = self.to_cols_array().iter().map(|x| *x as f64).collect();
                let m = Mx::from_cols(4, &c);
                let rest = m.at(3, 0) == 0.0 && m.at(3, 1) == 0.0 && m.at(3, 2) == 0.0 && m.at(3, 3) == 1.0 && m.at(0, 3) == 0.0 && m.at(1, 3) == 0.0 && m.at(2, 3) == 0.0;
                (m.block(3), rest)
            }
        }
    };
}
as_rot_m4!(Mat4, EPS32);
as_rot_m4!(DMat4, EPS64);
macro_rules! as_rot_aff {
    ($T:ident, $eps:expr) => {
        impl AsRot for $T {
            const NAME: &'static str = stringify!($T);
            const EPS: f64 = $eps;
            fn rot(&self) -> (Mx, bool) {
                let c: Vec<f64> = self.to_cols_array().iter().map(|x| *x as f64).collect();
                (cols3(&c[..9]), c[9] == 0.0 && c[10] == 0.0 && c[11] == 0.0)
            }
        }
    };
}
as_rot_aff!(Affine3A, EPS32);
as_rot_aff!(DAffine3, EPS64);

fn check_rot<T: AsRot>(acc: &mut Acc, site: &str, got: T, want: &Mx, k: f64, ctx: &dyn Fn() -> String) {
    let (g, rest) = got.rot();
    acc.eval(true, g.a[1].to_bits() ^ g.a[5].to_bits().rotate_left(20));
    if !rest {
        acc.fail(&format!("{}::{site}", T::NAME), format!("{} entries outside the rotation block are not trivial / quaternion not unit", ctx()));
    }
    let bound = vec![k * T::EPS; 9];
    env_vec(acc, &format!("{}::{site}", T::NAME), g.cols(), want.cols(), &bound, ctx);
    // proper rotation: orthonormal, det +1
    let gtg = g.transpose().mul(&g);
    env_vec(acc, &format!("{}::{site}(orthonormal)", T::NAME), gtg.cols(), Mx::ident(3).cols(), &vec![2.0 * k * T::EPS; 9], ctx);
    env(acc, &format!("{}::{site}(det)", T::NAME), g.det(), 1.0, 4.0 * k * T::EPS, ctx);
}

fn angle_grid(thorough: bool) -> Vec<f64> {
    let n = if thorough { 256 } else { 64 };
    let mut v: Vec<f64> = (0..=n).map(|i| -4.0 * PI + 8.0 * PI * i as f64 / n as f64).collect();
    for c in [0.0, PI, 2.0 * PI, -PI, PI / 2.0] {
        // dense towards the special angle: small-angle shortcuts are the classic place to go wrong
        for d in [0.0, 1e-7, -1e-7, 1e-5, -1e-5, 1e-4, -1e-4, 1e-3, -1e-3, 3e-3, -3e-3, 7e-3, -7e-3, 1e-2, -1e-2, 3e-2, -3e-2, 0.1, -0.1] {
            v.push(c + d);
        }
    }
    v.extend_from_slice(&[1e3, -1e3, 1e5, -1e5, 1e6, -1e6]);
    v
}

macro_rules! axis_angle {
    ($rep:ident, $S:ident, $V3:ident, $V2:ident, [$($T:ident),*], [$($T2:ident),*], [$($Q:ident),*]) => {{
        let axes: Vec<[f64; 3]> = unit_dirs(if $rep.thorough() { 3 } else { 2 });
        let angles = angle_grid($rep.thorough());
        let (na, ng) = (axes.len() as u64, angles.len() as u64);
        let (axr, anr) = (&axes, &angles);
        $rep.sweep(&format!("{}/from_axis_angle,from_scaled_axis/{na} axes x {ng} angles", stringify!($S)), na * ng, |idx, acc| {
            let ax = axr[(idx % na) as usize];
            let av = <$V3>::new(ax[0] as $S, ax[1] as $S, ax[2] as $S);
            let ang = anr[(idx / na) as usize] as $S;
            // reference on the stored values: normalised stored axis, stored angle
            let axs = normalize(&[av.x as f64, av.y as f64, av.z as f64]);
            let want = rodrigues(&axs, ang as f64);
            let ctx = || format!("axis={:?} angle={:e}", axs, ang);
            $( check_rot(acc, "from_axis_angle", <$T>::from_axis_angle(av, ang), &want, 16.0, &ctx); )*
            // scaled axis: angle reduced to its magnitude, direction * angle
            if (ang as f64).abs() < 4.0 * PI && ang != 0.0 {
                let sv = av * ang;
                let svf = [sv.x as f64, sv.y as f64, sv.z as f64];
                let l = norm(&svf);
                let want = rodrigues(&normalize(&svf), l);
                $( check_rot(acc, "from_scaled_axis", <$Q>::from_scaled_axis(sv), &want, 16.0 + 4.0 * l, &|| format!("v={:?}", svf)); )*
            }
        });
        $rep.sweep(&format!("{}/from_rotation_x,y,z,from_angle/{ng} angles", stringify!($S)), ng, |idx, acc| {
            let ang = anr[idx as usize] as $S;
            let ctx = || format!("angle={:e}", ang);
            $(
                check_rot(acc, "from_rotation_x", <$T>::from_rotation_x(ang), &rot_axis(0, ang as f64), 8.0, &ctx);
                check_rot(acc, "from_rotation_y", <$T>::from_rotation_y(ang), &rot_axis(1, ang as f64), 8.0, &ctx);
                check_rot(acc, "from_rotation_z", <$T>::from_rotation_z(ang), &rot_axis(2, ang as f64), 8.0, &ctx);
            )*
            // 2-D: counter-clockwise rotation [[c, -s], [s, c]] (column-major cols (c, s), (-s, c))
            let (s, c) = (ang as f64).sin_cos();
            let want2 = [c, s, -s, c];
            $(
                let m = <$T2>::from_angle(ang);
                let cols: Vec<f64> = m.to_cols_array().iter().map(|x| *x as f64).collect();
                let n = if cols.len() == 4 { 2 } else { 3 };
                let got2 = if cols.len() == 6 { vec![cols[0], cols[1], cols[2], cols[3]] } else { vec![cols[0], cols[1], cols[n], cols[n + 1]] };
                acc.eval(true, got2[1].to_bits());
                env_vec(acc, &format!("{}::from_angle", stringify!($T2)), &got2, &want2, &[8.0 * <$S>::EPSILON as f64], &ctx);
                // everything else must be the identity / zero translation
                let rest_ok = match cols.len() { 4 => true, 6 => cols[4] == 0.0 && cols[5] == 0.0, _ => cols[2] == 0.0 && cols[5] == 0.0 && cols[6] == 0.0 && cols[7] == 0.0 && cols[8] == 1.0 };
                if !rest_ok { acc.fail(&format!("{}::from_angle", stringify!($T2)), format!("{} non-trivial entries outside the 2x2 block: {:?}", ctx(), cols)); }
            )*
            let v = <$V2>::from_angle(ang);
            env_vec(acc, &format!("{}::from_angle", stringify!($V2)), &[v.x as f64, v.y as f64], &[c, s], &[4.0 * <$S>::EPSILON as f64], &ctx);
            // to_angle: the angle of the vector in [-pi, pi] (atan2(y, x)), for unit and scaled vectors
            for scale in [1.0 as $S, 37.5, 1e-3] {
                let w = v * scale;
                let want = (w.y as f64).atan2(w.x as f64);
                let got = w.to_angle() as f64;
                // +-pi are the same direction: compare on the circle
                let d = (got - want).abs();
                let d = d.min((d - 2.0 * std::f64::consts::PI).abs());
                env(acc, &format!("{}::to_angle", stringify!($V2)), d, 0.0, 8.0 * <$S>::EPSILON as f64, &|| format!("v={:?} got={:e} want={:e}", w, got, want));
            }
        });
    }};
}

macro_rules! euler {
    ($rep:ident, $S:ident, [$($T:ident),*], [$($TE:ident),*], $Q:ident, $V3:ident) => {{
        let g: i64 = if $rep.thorough() { 20 } else { 6 };
        let grid: Vec<f64> = (-g..=g).map(|i| 1.9 * PI * i as f64 / g as f64 + 0.011).collect();
        let ngr = grid.len() as u64;
        let gr = &grid;
        $rep.sweep(&format!("{}/from_euler/24 orders x {ngr}^3 angle grid", stringify!($S)), 24 * ngr * ngr * ngr, |idx, acc| {
            let d = harness::lat::digits(idx, [24, ngr, ngr, ngr]);
            let order = ORDERS[d[0]];
            let (a, b, c) = (gr[d[1]] as $S, gr[d[2]] as $S, gr[d[3]] as $S);
            let want = euler_ref(order, a as f64, b as f64, c as f64);
            let ctx = || format!("order={:?} angles=({:e}, {:e}, {:e})", order, a, b, c);
            $( check_rot(acc, "from_euler", <$T>::from_euler(order, a, b, c), &want, 24.0, &ctx); )*
            // to_euler of the constructed rotation rebuilds it
            let dist = gimbal_distance(order, b as f64);
            $(
                let m = <$TE>::from_euler(order, a, b, c);
                let (x, y, z) = m.to_euler(order);
                let back = euler_ref(order, x as f64, y as f64, z as f64);
                let (r, _) = m.rot();
                let tol = 32.0 * <$TE as AsRot>::EPS / dist.max(<$TE as AsRot>::EPS);
                env_vec(acc, &format!("{}::to_euler", <$TE as AsRot>::NAME), back.cols(), r.cols(), &vec![tol.min(4.0); 9], &|| format!("{} returned ({:e}, {:e}, {:e}) gimbal distance {:e}", ctx(), x, y, z, dist));
            )*
        });
        // gimbal family: middle angle = singular value +- {0, 1e-7 .. 1e-2}
        let outs: Vec<f64> = (0..if $rep.thorough() { 17 } else { 7 }).map(|i| -3.0 + 0.37 * i as f64).collect();
        let offs = [0.0, 1e-7, -1e-7, 1e-6, -1e-6, 1e-5, 1e-4, -1e-4, 1e-3, 1e-2, -1e-2];
        let no = outs.len() as u64;
        let outr = &outs;
        $rep.sweep(&format!("{}/euler gimbal family/24 orders x 4 singular values x 11 offsets x {no}^2 outer angles", stringify!($S)), 24 * 4 * 11 * no * no, |idx, acc| {
            let d = harness::lat::digits(idx, [24, 4, 11, no, no]);
            let order = ORDERS[d[0]];
            let (ax, _) = parse(order);
            let sing = if ax[0] == ax[2] { [0.0, PI, -PI, 2.0 * PI][d[1]] } else { [PI / 2.0, -PI / 2.0, 1.5 * PI, -1.5 * PI][d[1]] };
            let (a, b, c) = (outr[d[3]] as $S, (sing + offs[d[2]]) as $S, outr[d[4]] as $S);
            let want = euler_ref(order, a as f64, b as f64, c as f64);
            let ctx = || format!("order={:?} angles=({:e}, {:e}, {:e})", order, a, b, c);
            $( check_rot(acc, "from_euler", <$T>::from_euler(order, a, b, c), &want, 24.0, &ctx); )*
            let dist = gimbal_distance(order, b as f64);
            $(
                let m = <$TE>::from_euler(order, a, b, c);
                let (x, y, z) = m.to_euler(order);
                let back = euler_ref(order, x as f64, y as f64, z as f64);
                let (r, _) = m.rot();
                let tol = 32.0 * <$TE as AsRot>::EPS / dist.max(<$TE as AsRot>::EPS);
                acc.branch(if dist < 16.0 * <$TE as AsRot>::EPS { "to_euler: inside the gimbal threshold" } else { "to_euler: outside the gimbal threshold" });
                env_vec(acc, &format!("{}::to_euler", <$TE as AsRot>::NAME), back.cols(), r.cols(), &vec![tol.min(4.0); 9], &|| format!("{} returned ({:e}, {:e}, {:e}) gimbal distance {:e}", ctx(), x, y, z, dist));
            )*
        });
        // extraction from arbitrary rotations of the ROT family
        let rot = rot_family(if $rep.thorough() { 1 } else { 0 });
        let nr = rot.len() as u64;
        let rr = &rot;
        $rep.sweep(&format!("{}/to_euler,to_axis_angle,to_scaled_axis/{nr} rotations x 24 orders", stringify!($S)), nr * 24, |idx, acc| {
            let qf = rr[(idx % nr) as usize];
            let order = ORDERS[(idx / nr) as usize];
            let q = <$Q>::from_xyzw(qf[0] as $S, qf[1] as $S, qf[2] as $S, qf[3] as $S);
            let (r, _) = q.rot();
            let ctx = || format!("q={:?} order={:?}", qf, order);
            // middle angle of the reference decomposition gives the conditioning
            $(
                let m = <$TE>::from_quat(q);
                let (x, y, z) = m.to_euler(order);
                let back = euler_ref(order, x as f64, y as f64, z as f64);
                let dist = gimbal_distance(order, y as f64);
                let (rm, _) = m.rot();
                let tol = 32.0 * <$TE as AsRot>::EPS / dist.max(<$TE as AsRot>::EPS);
                acc.eval(true, (x as f64).to_bits() ^ (z as f64).to_bits().rotate_left(11));
                env_vec(acc, &format!("{}::to_euler", <$TE as AsRot>::NAME), back.cols(), rm.cols(), &vec![tol.min(4.0); 9], &|| format!("{} returned ({:e}, {:e}, {:e}) gimbal distance {:e}", ctx(), x, y, z, dist));
            )*
            {
                let (x, y, z) = q.to_euler(order);
                let back = euler_ref(order, x as f64, y as f64, z as f64);
                let dist = gimbal_distance(order, y as f64);
                let tol = 32.0 * <$Q as AsRot>::EPS / dist.max(<$Q as AsRot>::EPS);
                env_vec(acc, &format!("{}::to_euler", <$Q as AsRot>::NAME), back.cols(), r.cols(), &vec![tol.min(4.0); 9], &|| format!("{} returned ({:e}, {:e}, {:e}) gimbal distance {:e}", ctx(), x, y, z, dist));
            }
            if idx / nr == 0 {
                let (axis, ang) = q.to_axis_angle();
                let af = [axis.x as f64, axis.y as f64, axis.z as f64];
                let back = rodrigues(&normalize(&af), ang as f64);
                acc.eval(true, (ang as f64).to_bits());
                env_vec(acc, &format!("{}::to_axis_angle", <$Q as AsRot>::NAME), back.cols(), r.cols(), &[32.0 * <$Q as AsRot>::EPS], &|| format!("{} returned axis={:?} angle={:e}", ctx(), af, ang));
                env(acc, &format!("{}::to_axis_angle(unit axis)", <$Q as AsRot>::NAME), norm(&af), 1.0, 4.0 * <$Q as AsRot>::EPS, &ctx);
                let sv = q.to_scaled_axis();
                let svf = [sv.x as f64, sv.y as f64, sv.z as f64];
                let l = norm(&svf);
                let back = if l == 0.0 { Mx::ident(3) } else { rodrigues(&normalize(&svf), l) };
                env_vec(acc, &format!("{}::to_scaled_axis", <$Q as AsRot>::NAME), back.cols(), r.cols(), &[32.0 * <$Q as AsRot>::EPS], &|| format!("{} returned {:?}", ctx(), svf));
            }
        });
    }};
}

fn main() {
    let mut rep = Report::new("C09", "exploration");
    silence_panics();
    rep.rule("cases = (type, constructor, axis from the normalised integer directions, angle from the grid on [-4pi,4pi] + neighbourhoods of 0, pi/2, pi, 2pi + huge angles) and (type, EulerRot variant, angle triple from the grid / the gimbal family with the middle angle at the singular value +- {0,1e-7..1e-2}); reference = f64 Rodrigues matrix / product of single-axis rotations in the order spelled by the variant name; all types compared with the same reference; extraction checks rebuild the rotation from the returned parameters with tolerance K*eps/max(distance from singularity, eps); every case is non-trivial");
    axis_angle!(rep, f32, Vec3, Vec2, [Quat, Mat3, Mat3A, Mat4, Affine3A], [Mat2, Mat3, Mat3A, Affine2], [Quat]);
    axis_angle!(rep, f64, DVec3, DVec2, [DQuat, DMat3, DMat4, DAffine3], [DMat2, DMat3, DAffine2], [DQuat]);
    // the scaled 2-D rotation constructors turn the same way: from_scale_angle(s, a) = from_angle(a) * diag(s)
    {
        let angles = angle_grid(rep.thorough());
        let ar = &angles;
        rep.sweep(&format!("2-D/from_scale_angle = from_angle * scale/{} angles x 3 scales", angles.len()), angles.len() as u64 * 3, |idx, acc| {
            let ang = ar[(idx % ar.len() as u64) as usize];
            let sc = [[1.0f64, 1.0], [2.0, 0.5], [-1.5, 3.0]][(idx / ar.len() as u64) as usize];
            acc.eval(true, idx);
            let (s32, c32) = ((ang as f32) as f64).sin_cos();
            let g = Mat2::from_scale_angle(Vec2::new(sc[0] as f32, sc[1] as f32), ang as f32).to_cols_array();
            let w = [c32 * sc[0], s32 * sc[0], -s32 * sc[1], c32 * sc[1]];
            env_vec(acc, "Mat2::from_scale_angle", &g.map(|x| x as f64), &w, &[8.0 * f32::EPSILON as f64 * 3.0], &|| format!("scale={:?} angle={:e}", sc, ang));
            let (s64, c64) = ang.sin_cos();
            let g = DMat2::from_scale_angle(DVec2::new(sc[0], sc[1]), ang).to_cols_array();
            let w = [c64 * sc[0], s64 * sc[0], -s64 * sc[1], c64 * sc[1]];
            env_vec(acc, "DMat2::from_scale_angle", &g, &w, &[8.0 * f64::EPSILON * 3.0], &|| format!("scale={:?} angle={:e}", sc, ang));
            let g3 = Mat3::from_scale_angle_translation(Vec2::new(sc[0] as f32, sc[1] as f32), ang as f32, Vec2::new(0.5, -2.0)).to_cols_array();
            env_vec(acc, "Mat3::from_scale_angle_translation", &[g3[0] as f64, g3[1] as f64, g3[3] as f64, g3[4] as f64], &[c32 * sc[0], s32 * sc[0], -s32 * sc[1], c32 * sc[1]], &[8.0 * f32::EPSILON as f64 * 3.0], &|| format!("scale={:?} angle={:e}", sc, ang));
        });
    }
    euler!(rep, f32, [Quat, Mat3, Mat3A, Mat4], [Mat3, Mat3A, Mat4], Quat, Vec3);
    euler!(rep, f64, [DQuat, DMat3, DMat4], [DMat3, DMat4], DQuat, DVec3);
    rep.sample(json!({"constructor": "Mat3A::from_euler", "order": "YZXEx", "angles": [0.011, 1.5708963, -2.2], "reference": "Rx(c)*Rz(b)*Ry(a) (extrinsic: reversed)"}));
    rep.sample(json!({"constructor": "Quat::from_axis_angle", "axis": "(2,-1,2)/3", "angle": 1e6, "reference": "f64 Rodrigues matrix of the stored axis and angle"}));
    std::process::exit(rep.finish());
}
