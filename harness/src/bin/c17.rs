//! C17 — all element access paths of a vector or quaternion see the same N lanes (engine E2).
//! Per type: stateright model, state = (raw bytes of the real value, model lane bits); initial states
//! = every constructor path and every named constant; actions = write value v to lane i through one
//! mutable path; invariant = every read path returns the model lanes bit-for-bit. The alphabet is
//! finite, the BFS runs to the fixpoint, so histories of every length are covered.
#![allow(clippy::all)]
use glam::*;
use harness::flat::*;
use harness::mc::run_bfs;
use harness::rep::*;
use serde_json::json;
use stateright::{Model, Property};
use std::marker::PhantomData;

trait Paths: Copy + Send + Sync + 'static {
    type S: Sc;
    const N: usize;
    const NAME: &'static str;
    /// number of mutable paths
    const NW: usize;
    fn constructors(l: &[Self::S]) -> Vec<(&'static str, Self)>;
    fn constants() -> Vec<(&'static str, Self, Vec<Self::S>)>;
    fn write(&mut self, path: usize, lane: usize, v: Self::S);
    fn write_name(path: usize) -> &'static str;
    fn reads(&self) -> Vec<(&'static str, Vec<Self::S>)>;
    fn strings(&self) -> (String, String, String);
    fn model_strings(l: &[Self::S]) -> (String, String, String);
    fn raw(&self) -> [u8; 32] {
        let mut r = [0u8; 32];
        let n = std::mem::size_of::<Self>();
        assert!(n <= 32);
        unsafe { std::ptr::copy_nonoverlapping(self as *const Self as *const u8, r.as_mut_ptr(), n) };
        r
    }
    fn unraw(r: &[u8; 32]) -> Self {
        #[repr(align(32))]
        struct A([u8; 32]);
        let a = A(*r);
        unsafe { std::ptr::read(a.0.as_ptr() as *const Self) }
    }
}

macro_rules! count {
    () => { 0usize };
    ($h:tt $($t:tt)*) => { 1usize + count!($($t)*) };
}

macro_rules! consts {
    (f, $T:ident, $S:ident, $N:expr) => {{
        let mut v: Vec<(&'static str, $T, Vec<$S>)> = vec![
            ("ZERO", <$T>::ZERO, vec![0.0; $N]),
            ("ONE", <$T>::ONE, vec![1.0; $N]),
            ("NEG_ONE", <$T>::NEG_ONE, vec![-1.0; $N]),
            ("MIN", <$T>::MIN, vec![<$S>::MIN; $N]),
            ("MAX", <$T>::MAX, vec![<$S>::MAX; $N]),
            ("NAN", <$T>::NAN, vec![<$S>::NAN; $N]),
            ("INFINITY", <$T>::INFINITY, vec![<$S>::INFINITY; $N]),
            ("NEG_INFINITY", <$T>::NEG_INFINITY, vec![<$S>::NEG_INFINITY; $N]),
            ("default", <$T>::default(), vec![0.0; $N]),
        ];
        for (i, a) in <$T>::AXES.iter().enumerate() {
            let mut l = vec![0.0; $N];
            l[i] = 1.0;
            v.push(("AXES[i]", *a, l));
        }
        v
    }};
    (s, $T:ident, $S:ident, $N:expr) => {{
        let mut v: Vec<(&'static str, $T, Vec<$S>)> = vec![
            ("ZERO", <$T>::ZERO, vec![0; $N]),
            ("ONE", <$T>::ONE, vec![1; $N]),
            ("NEG_ONE", <$T>::NEG_ONE, vec![-1; $N]),
            ("MIN", <$T>::MIN, vec![<$S>::MIN; $N]),
            ("MAX", <$T>::MAX, vec![<$S>::MAX; $N]),
            ("default", <$T>::default(), vec![0; $N]),
        ];
        for (i, a) in <$T>::AXES.iter().enumerate() {
            let mut l = vec![0; $N];
            l[i] = 1;
            v.push(("AXES[i]", *a, l));
        }
        v
    }};
    (u, $T:ident, $S:ident, $N:expr) => {{
        let mut v: Vec<(&'static str, $T, Vec<$S>)> = vec![
            ("ZERO", <$T>::ZERO, vec![0; $N]),
            ("ONE", <$T>::ONE, vec![1; $N]),
            ("MIN", <$T>::MIN, vec![<$S>::MIN; $N]),
            ("MAX", <$T>::MAX, vec![<$S>::MAX; $N]),
            ("default", <$T>::default(), vec![0; $N]),
        ];
        for (i, a) in <$T>::AXES.iter().enumerate() {
            let mut l = vec![0; $N];
            l[i] = 1;
            v.push(("AXES[i]", *a, l));
        }
        v
    }};
}
macro_rules! axis_consts {
    ($v:ident, $T:ident, $one:expr, $zero:expr, $N:expr, [$(($C:ident, $i:expr, $neg:expr)),*]) => {
        $( { let mut l = vec![$zero; $N]; l[$i] = if $neg { -$one } else { $one }; $v.push((stringify!($C), <$T>::$C, l)); } )*
    };
}

/// further read paths of the f32 3- and 4-vectors: the conversions that hand every lane on to another
/// vector type (extend / truncate / tuple From with a scalar on either side / Vec3 <-> Vec3A / from_vec4)
fn extra_reads<T: 'static + Copy, S: 'static + Copy>(v: &T) -> Vec<(&'static str, Vec<S>)> {
    use std::any::TypeId;
    let cast = |l: Vec<f32>| -> Vec<S> {
        assert_eq!(TypeId::of::<S>(), TypeId::of::<f32>());
        l.into_iter().map(|x| unsafe { std::mem::transmute_copy::<f32, S>(&x) }).collect()
    };
    let w = 777.25f32;
    if TypeId::of::<T>() == TypeId::of::<Vec3A>() {
        let v: Vec3A = unsafe { std::mem::transmute_copy::<T, Vec3A>(v) };
        return vec![
            ("extend(w).xyz", cast(v.extend(w).to_array()[..3].to_vec())),
            ("Vec4::from((v, w)).xyz", cast(Vec4::from((v, w)).to_array()[..3].to_vec())),
            ("Vec4::from((w, v)).yzw", cast(Vec4::from((w, v)).to_array()[1..].to_vec())),
            ("Vec3::from(v)", cast(Vec3::from(v).to_array().to_vec())),
            ("Vec3A::from(Vec3::from(v))", cast(Vec3A::from(Vec3::from(v)).to_array().to_vec())),
            ("truncate + z", cast(vec![v.truncate().x, v.truncate().y, v.z])),
        ];
    }
    if TypeId::of::<T>() == TypeId::of::<Vec3>() {
        let v: Vec3 = unsafe { std::mem::transmute_copy::<T, Vec3>(v) };
        return vec![
            ("extend(w).xyz", cast(v.extend(w).to_array()[..3].to_vec())),
            ("Vec4::from((v, w)).xyz", cast(Vec4::from((v, w)).to_array()[..3].to_vec())),
            ("Vec4::from((w, v)).yzw", cast(Vec4::from((w, v)).to_array()[1..].to_vec())),
            ("Vec3A::from(v)", cast(Vec3A::from(v).to_array().to_vec())),
        ];
    }
    if TypeId::of::<T>() == TypeId::of::<Vec4>() {
        let v: Vec4 = unsafe { std::mem::transmute_copy::<T, Vec4>(v) };
        return vec![
            ("truncate + w", cast(vec![v.truncate().x, v.truncate().y, v.truncate().z, v.w])),
            ("Vec3A::from_vec4 + w", cast(vec![Vec3A::from_vec4(v).x, Vec3A::from_vec4(v).y, Vec3A::from_vec4(v).z, v.w])),
        ];
    }
    vec![]
}

macro_rules! paths_vec {
    ($T:ident, $free:ident, $S:ident, $N:expr, $kind:ident, [$($f:ident $i:tt $with:ident $AX:ident),*], $tup:ty, [$(($NC:ident, $ni:expr)),*]) => {
        impl Paths for $T {
            type S = $S;
            const N: usize = $N;
            const NAME: &'static str = stringify!($T);
            const NW: usize = 5;
            fn constructors(l: &[$S]) -> Vec<(&'static str, Self)> {
                let a: [$S; $N] = [$(l[$i]),*];
                let t: $tup = ($(l[$i]),*);
                let mut padded = l[..$N].to_vec();
                padded.push(<$S as Sc>::fin(9));
                padded.push(<$S as Sc>::fin(10));
                vec![
                    ("new", <$T>::new($(l[$i]),*)),
                    ("free fn", $free($(l[$i]),*)),
                    ("from_array", <$T>::from_array(a)),
                    ("from_slice(exact)", <$T>::from_slice(&l[..$N])),
                    ("from_slice(longer)", <$T>::from_slice(&padded)),
                    ("From<array>", <$T>::from(a)),
                    ("From<tuple>", <$T>::from(t)),
                    ("splat+with", { let mut v = <$T>::splat(l[0]); $( v = v.$with(l[$i]); )* v }),
                    ("default+fields", { let mut v = <$T>::default(); $( v.$f = l[$i]; )* v }),
                ]
            }
            fn constants() -> Vec<(&'static str, Self, Vec<$S>)> {
                #[allow(unused_mut)]
                let mut v = consts!($kind, $T, $S, $N);
                $( { let mut l = vec![<$S as Sc>::zero(); $N]; l[$i] = <$S as Sc>::one(); v.push((stringify!($AX), <$T>::$AX, l)); } )*
                $( { let mut l = vec![<$S as Sc>::zero(); $N]; l[$ni] = (<$S as Sc>::zero() - <$S as Sc>::one()); v.push((stringify!($NC), <$T>::$NC, l)); } )*
                // splat as a constructor with constant lanes
                v.push(("splat(tag)", <$T>::splat(<$S as Sc>::tag(0)), vec![<$S as Sc>::tag(0); $N]));
                v
            }
            fn write(&mut self, path: usize, lane: usize, val: $S) {
                match path {
                    0 => match lane { $($i => self.$f = val,)* _ => unreachable!() },
                    1 => self[lane] = val,
                    2 => { let a: &mut [$S; $N] = self.as_mut(); a[lane] = val; }
                    3 => *self = match lane { $($i => self.$with(val),)* _ => unreachable!() },
                    _ => { let r: &mut $S = &mut self[lane]; *r = val; }
                }
            }
            fn write_name(path: usize) -> &'static str { ["field=", "IndexMut", "AsMut", "with_*", "&mut self[i]"][path] }
            fn reads(&self) -> Vec<(&'static str, Vec<$S>)> {
                let mut buf = vec![<$S as Sc>::fin(20); $N + 2];
                self.write_to_slice(&mut buf);
                let tail_ok = buf[$N].bits() == <$S as Sc>::fin(20).bits() && buf[$N + 1].bits() == <$S as Sc>::fin(20).bits();
                let mut exact = vec![<$S as Sc>::fin(21); $N];
                self.write_to_slice(&mut exact);
                let arr: [$S; $N] = (*self).into();
                let t: $tup = (*self).into();
                let ar: &[$S; $N] = self.as_ref();
                vec![
                    ("fields", vec![$(self.$f),*]),
                    ("Index", (0..$N).map(|i| self[i]).collect()),
                    ("to_array", self.to_array().to_vec()),
                    ("write_to_slice(longer)", if tail_ok { buf[..$N].to_vec() } else { vec![] }),
                    ("write_to_slice(exact)", exact),
                    ("Into<array>", arr.to_vec()),
                    ("Into<tuple>", vec![$(t.$i),*]),
                    ("AsRef", ar.to_vec()),
                    ("copy.to_array", { let c = *self; c.to_array().to_vec() }),
                ].into_iter().chain(extra_reads::<$T, $S>(self)).collect()
            }
            fn strings(&self) -> (String, String, String) { (format!("{:?}", self), format!("{}", self), format!("{:.3}", self)) }
            fn model_strings(l: &[$S]) -> (String, String, String) {
                let d: Vec<String> = l.iter().map(|x| format!("{:?}", x)).collect();
                let p: Vec<String> = l.iter().map(|x| format!("{}", x)).collect();
                let q: Vec<String> = l.iter().map(|x| format!("{:.3}", x)).collect();
                (format!("{}({})", stringify!($T), d.join(", ")), format!("[{}]", p.join(", ")), format!("[{}]", q.join(", ")))
            }
        }
    };
}

macro_rules! paths_all_dims {
    ($V2:ident $f2:ident, $V3:ident $f3:ident, $V4:ident $f4:ident, $S:ident, $kind:ident, $neg2:tt, $neg3:tt, $neg4:tt) => {
        paths_vec!($V2, $f2, $S, 2, $kind, [x 0 with_x X, y 1 with_y Y], ($S, $S), $neg2);
        paths_vec!($V3, $f3, $S, 3, $kind, [x 0 with_x X, y 1 with_y Y, z 2 with_z Z], ($S, $S, $S), $neg3);
        paths_vec!($V4, $f4, $S, 4, $kind, [x 0 with_x X, y 1 with_y Y, z 2 with_z Z, w 3 with_w W], ($S, $S, $S, $S), $neg4);
    };
}
paths_all_dims!(Vec2 vec2, Vec3 vec3, Vec4 vec4, f32, f, [(NEG_X, 0), (NEG_Y, 1)], [(NEG_X, 0), (NEG_Y, 1), (NEG_Z, 2)], [(NEG_X, 0), (NEG_Y, 1), (NEG_Z, 2), (NEG_W, 3)]);
paths_vec!(Vec3A, vec3a, f32, 3, f, [x 0 with_x X, y 1 with_y Y, z 2 with_z Z], (f32, f32, f32), [(NEG_X, 0), (NEG_Y, 1), (NEG_Z, 2)]);
paths_all_dims!(DVec2 dvec2, DVec3 dvec3, DVec4 dvec4, f64, f, [(NEG_X, 0), (NEG_Y, 1)], [(NEG_X, 0), (NEG_Y, 1), (NEG_Z, 2)], [(NEG_X, 0), (NEG_Y, 1), (NEG_Z, 2), (NEG_W, 3)]);
paths_all_dims!(I8Vec2 i8vec2, I8Vec3 i8vec3, I8Vec4 i8vec4, i8, s, [(NEG_X, 0), (NEG_Y, 1)], [(NEG_X, 0), (NEG_Y, 1), (NEG_Z, 2)], [(NEG_X, 0), (NEG_Y, 1), (NEG_Z, 2), (NEG_W, 3)]);
paths_all_dims!(I16Vec2 i16vec2, I16Vec3 i16vec3, I16Vec4 i16vec4, i16, s, [(NEG_X, 0), (NEG_Y, 1)], [(NEG_X, 0), (NEG_Y, 1), (NEG_Z, 2)], [(NEG_X, 0), (NEG_Y, 1), (NEG_Z, 2), (NEG_W, 3)]);
paths_all_dims!(IVec2 ivec2, IVec3 ivec3, IVec4 ivec4, i32, s, [(NEG_X, 0), (NEG_Y, 1)], [(NEG_X, 0), (NEG_Y, 1), (NEG_Z, 2)], [(NEG_X, 0), (NEG_Y, 1), (NEG_Z, 2), (NEG_W, 3)]);
paths_all_dims!(I64Vec2 i64vec2, I64Vec3 i64vec3, I64Vec4 i64vec4, i64, s, [(NEG_X, 0), (NEG_Y, 1)], [(NEG_X, 0), (NEG_Y, 1), (NEG_Z, 2)], [(NEG_X, 0), (NEG_Y, 1), (NEG_Z, 2), (NEG_W, 3)]);
paths_all_dims!(U8Vec2 u8vec2, U8Vec3 u8vec3, U8Vec4 u8vec4, u8, u, [], [], []);
paths_all_dims!(U16Vec2 u16vec2, U16Vec3 u16vec3, U16Vec4 u16vec4, u16, u, [], [], []);
paths_all_dims!(UVec2 uvec2, UVec3 uvec3, UVec4 uvec4, u32, u, [], [], []);
paths_all_dims!(U64Vec2 u64vec2, U64Vec3 u64vec3, U64Vec4 u64vec4, u64, u, [], [], []);
paths_all_dims!(USizeVec2 usizevec2, USizeVec3 usizevec3, USizeVec4 usizevec4, usize, u, [], [], []);

macro_rules! paths_quat {
    ($T:ident, $free:ident, $S:ident, $V4:ident) => {
        impl Paths for $T {
            type S = $S;
            const N: usize = 4;
            const NAME: &'static str = stringify!($T);
            const NW: usize = 2;
            fn constructors(l: &[$S]) -> Vec<(&'static str, Self)> {
                let a = [l[0], l[1], l[2], l[3]];
                let mut padded = l[..4].to_vec();
                padded.push(<$S as Sc>::fin(9));
                vec![
                    ("from_xyzw", <$T>::from_xyzw(l[0], l[1], l[2], l[3])),
                    ("free fn", $free(l[0], l[1], l[2], l[3])),
                    ("from_array", <$T>::from_array(a)),
                    ("from_slice(exact)", <$T>::from_slice(&l[..4])),
                    ("from_slice(longer)", <$T>::from_slice(&padded)),
                    ("from_vec4", <$T>::from_vec4($V4::new(l[0], l[1], l[2], l[3]))),
                    ("default+fields", { let mut q = <$T>::default(); q.x = l[0]; q.y = l[1]; q.z = l[2]; q.w = l[3]; q }),
                ]
            }
            fn constants() -> Vec<(&'static str, Self, Vec<$S>)> {
                vec![
                    ("IDENTITY", <$T>::IDENTITY, vec![0.0, 0.0, 0.0, 1.0]),
                    ("NAN", <$T>::NAN, vec![<$S>::NAN; 4]),
                    ("default", <$T>::default(), vec![0.0, 0.0, 0.0, 1.0]),
                ]
            }
            fn write(&mut self, path: usize, lane: usize, val: $S) {
                match path {
                    0 => match lane { 0 => self.x = val, 1 => self.y = val, 2 => self.z = val, _ => self.w = val },
                    _ => { let p: &mut $S = match lane { 0 => &mut self.x, 1 => &mut self.y, 2 => &mut self.z, _ => &mut self.w }; *p = val; }
                }
            }
            fn write_name(path: usize) -> &'static str { ["field=", "&mut field"][path] }
            fn reads(&self) -> Vec<(&'static str, Vec<$S>)> {
                let mut buf = vec![<$S as Sc>::fin(20); 6];
                self.write_to_slice(&mut buf);
                let tail_ok = buf[4].bits() == <$S as Sc>::fin(20).bits() && buf[5].bits() == <$S as Sc>::fin(20).bits();
                let mut exact = vec![<$S as Sc>::fin(21); 4];
                self.write_to_slice(&mut exact);
                let arr: [$S; 4] = (*self).into();
                let t: ($S, $S, $S, $S) = (*self).into();
                let v4: $V4 = (*self).into();
                let ar: &[$S; 4] = self.as_ref();
                let xyz = self.xyz();
                vec![
                    ("fields", vec![self.x, self.y, self.z, self.w]),
                    ("to_array", self.to_array().to_vec()),
                    ("write_to_slice(longer)", if tail_ok { buf[..4].to_vec() } else { vec![] }),
                    ("write_to_slice(exact)", exact),
                    ("Into<array>", arr.to_vec()),
                    ("Into<tuple>", vec![t.0, t.1, t.2, t.3]),
                    ("Into<Vec4>", v4.to_array().to_vec()),
                    ("AsRef", ar.to_vec()),
                    ("xyz()+w", vec![xyz.x, xyz.y, xyz.z, self.w]),
                ]
            }
            fn strings(&self) -> (String, String, String) { (format!("{:?}", self), format!("{}", self), format!("{:.3}", self)) }
            fn model_strings(l: &[$S]) -> (String, String, String) {
                let d: Vec<String> = l.iter().map(|x| format!("{:?}", x)).collect();
                let p: Vec<String> = l.iter().map(|x| format!("{}", x)).collect();
                let q: Vec<String> = l.iter().map(|x| format!("{:.3}", x)).collect();
                (format!("{}({})", stringify!($T), d.join(", ")), format!("[{}]", p.join(", ")), format!("[{}]", q.join(", ")))
            }
        }
    };
}
paths_quat!(Quat, quat, f32, Vec4);
paths_quat!(DQuat, dquat, f64, DVec4);

// ------------------------------------------------------------------------------------------------
#[derive(Clone, Debug, PartialEq, Eq, Hash)]
struct PState {
    raw: [u8; 32],
    model: [u64; 4],
    origin: &'static str,
}
#[derive(Clone, Debug, PartialEq)]
struct PAct {
    path: &'static str,
    pidx: usize,
    lane: usize,
    vidx: usize,
}
struct PathModel<P: Paths> {
    values: Vec<P::S>,
    _p: PhantomData<P>,
}
fn from_bits<S: Sc>(pool: &[S], b: u64) -> S {
    *pool.iter().find(|x| x.bits() == b).expect("lane value outside the pool")
}
fn write_values<S: Sc>(thorough: bool) -> Vec<S> {
    // floats: 1.0-ish, -0.0, NaN payload A, NaN payload B, subnormal; ints: MAX, MIN, 0, 1, odd
    let ks: &[usize] = if thorough { &[0, 1, 2, 3, 4, 5, 6, 7] } else { &[0, 1, 2, 3, 4, 5] };
    ks.iter().map(|k| S::tag(*k)).collect()
}
fn pool<P: Paths>(vals: &[P::S]) -> Vec<P::S> {
    let mut p = vals.to_vec();
    for i in 0..4 {
        p.push(P::S::tag(8 + i));
    }
    for (_, _, l) in P::constants() {
        p.extend(l);
    }
    p
}
fn observe<P: Paths>(m: &PathModel<P>, s: &PState) -> Option<(String, String)> {
    let v = P::unraw(&s.raw);
    let pl = pool::<P>(&m.values);
    let lanes: Vec<P::S> = (0..P::N).map(|i| from_bits(&pl, s.model[i])).collect();
    for (name, got) in v.reads() {
        if !bits_eq(&got, &lanes) {
            return Some((name.to_string(), format!("read path `{name}` returned {} but the model lanes are {} (origin: {})", show(&got), show(&lanes), s.origin)));
        }
    }
    let (d, p, q) = v.strings();
    let (md, mp, mq) = P::model_strings(&lanes);
    if d != md {
        return Some(("Debug".into(), format!("Debug `{d}` != `{md}`")));
    }
    if p != mp {
        return Some(("Display".into(), format!("Display `{p}` != `{mp}`")));
    }
    if q != mq {
        return Some(("Display".into(), format!("Display with precision `{q}` != `{mq}`")));
    }
    None
}
impl<P: Paths> Model for PathModel<P> {
    type State = PState;
    type Action = PAct;
    fn init_states(&self) -> Vec<PState> {
        let mut v = vec![];
        let tagged: Vec<P::S> = (0..4).map(|i| P::S::tag(8 + i)).collect();
        let mut push = |origin: &'static str, val: P, l: &[P::S]| {
            let mut model = [0u64; 4];
            for i in 0..P::N {
                model[i] = l[i].bits();
            }
            v.push(PState { raw: val.raw(), model, origin });
        };
        for (name, val) in P::constructors(&tagged) {
            push(name, val, &tagged);
        }
        for (name, val, l) in P::constants() {
            push(name, val, &l);
        }
        v
    }
    fn actions(&self, _s: &PState, a: &mut Vec<PAct>) {
        for pidx in 0..P::NW {
            for lane in 0..P::N {
                for vidx in 0..self.values.len() {
                    a.push(PAct { path: P::write_name(pidx), pidx, lane, vidx });
                }
            }
        }
    }
    fn next_state(&self, s: &PState, a: PAct) -> Option<PState> {
        let mut v = P::unraw(&s.raw);
        v.write(a.pidx, a.lane, self.values[a.vidx]);
        let mut model = s.model;
        model[a.lane] = self.values[a.vidx].bits();
        Some(PState { raw: v.raw(), model, origin: "write" })
    }
    fn properties(&self) -> Vec<Property<Self>> {
        vec![Property::always("every read path returns the model lanes", |m, s| observe::<P>(m, s).is_none())]
    }
}

fn run<P: Paths>(rep: &mut Report) {
    let values = write_values::<P::S>(rep.thorough());
    let m = PathModel::<P> { values, _p: PhantomData };
    run_bfs(rep, &format!("{}/access-path model (to fixpoint)", P::NAME), P::NAME, m, true, |m, s| {
        observe::<P>(m, s).unwrap_or(("?".into(), "no failing observation on re-evaluation".into()))
    });
}

fn main() {
    let mut rep = Report::new("C17", "model_checking");
    silence_panics();
    rep.rule("per type a stateright model: init states = every constructor path on tagged lanes + every named constant; actions = write one of the value alphabet (NaN payloads A/B, -0/MIN, extremes, subnormal) to lane i through field assignment / IndexMut / AsMut / with_* / &mut self[i]; invariant in every state: fields, Index, to_array, write_to_slice (exact and longer buffer, tail untouched), Into<array>, Into<tuple>, AsRef, Debug, Display (with and without precision) all equal the model lanes bit-for-bit; BFS to fixpoint = all histories of all lengths over the alphabet");
    macro_rules! all {
        ($($T:ident),*) => { $( run::<$T>(&mut rep); )* };
    }
    all!(Vec2, Vec3, Vec3A, Vec4, DVec2, DVec3, DVec4, Quat, DQuat);
    all!(I8Vec2, I8Vec3, I8Vec4, U8Vec2, U8Vec3, U8Vec4, I16Vec2, I16Vec3, I16Vec4, U16Vec2, U16Vec3, U16Vec4);
    all!(IVec2, IVec3, IVec4, UVec2, UVec3, UVec4, I64Vec2, I64Vec3, I64Vec4, U64Vec2, U64Vec3, U64Vec4, USizeVec2, USizeVec3, USizeVec4);
    rep.sample(json!({"model": "Vec3A", "trace": ["init: From<tuple>(tag8, tag9, tag10)", "IndexMut[1] = NaN payload A", "with_z(-0.0)", "field x = f32::MAX... "], "checked_in_every_state": ["fields", "Index", "to_array", "write_to_slice", "Into<array>", "Into<tuple>", "AsRef", "Debug", "Display"]}));
    std::process::exit(rep.finish());
}
