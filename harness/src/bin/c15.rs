//! C15 — comparison masks, select and the mask algebra behave as lane-wise booleans.
//! Part 1 (E2, model checking to fixpoint): per mask type a stateright model whose states are the
//! raw bytes of a real mask plus a `[bool; N]` reference; every transition calls the real operation.
//! Part 2 (E1): cmp* and select on every numeric vector type against the primitive comparison.
#![allow(clippy::all)]
use glam::*;
use harness::flat::*;
use harness::lat::digits;
use harness::mc::run_bfs;
use harness::rep::*;
use harness::catch;
use serde_json::json;
use stateright::{Model, Property};
use std::hash::{Hash, Hasher};
use std::marker::PhantomData;

// ------------------------------------------------------------------------------------------------
trait MaskT: Copy + Send + Sync + PartialEq + Hash + std::fmt::Debug + std::fmt::Display + 'static {
    const N: usize;
    const NAME: &'static str;
    fn make(b: &[bool]) -> Self;
    fn splat_(b: bool) -> Self;
    fn from_array_(b: &[bool]) -> Self;
    fn from_arr_trait(b: &[bool]) -> Self;
    fn default_() -> Self;
    fn any_(self) -> bool;
    fn all_(self) -> bool;
    fn bitmask_(self) -> u32;
    fn test_(&self, i: usize) -> bool;
    fn set_(&mut self, i: usize, v: bool);
    fn and(self, o: Self) -> Self;
    fn or(self, o: Self) -> Self;
    fn xor(self, o: Self) -> Self;
    fn and_assign(&mut self, o: Self);
    fn or_assign(&mut self, o: Self);
    fn xor_assign(&mut self, o: Self);
    fn not_(self) -> Self;
    fn bools(self) -> Vec<bool>;
    fn u32s(self) -> Vec<u32>;
    /// the mask as consumed by `select` of its vector type: (result lane bits, bits of the `if_true` lanes, bits of the `if_false` lanes)
    fn select_(self) -> (Vec<u64>, Vec<u64>, Vec<u64>);
    /// k-th comparison-produced mask with its expected lanes (hidden lanes hold garbage where they exist)
    fn from_cmp(k: usize) -> (Self, Vec<bool>);
    const NCMP: usize;
    fn raw(&self) -> [u8; 16] {
        let mut r = [0u8; 16];
        let n = std::mem::size_of::<Self>();
        assert!(n <= 16);
        unsafe { std::ptr::copy_nonoverlapping(self as *const Self as *const u8, r.as_mut_ptr(), n) };
        r
    }
    fn unraw(r: &[u8; 16]) -> Self {
        // only ever applied to bytes previously produced by `raw` on a real value
        unsafe { std::ptr::read_unaligned(r.as_ptr() as *const Self) }
    }
}

const F: [f32; 6] = [0.0, -0.0, 1.0, f32::NAN, f32::INFINITY, -2.5];
fn cmp6f(k: usize, a: f32, b: f32) -> bool {
    match k {
        0 => a == b,
        1 => a != b,
        2 => a < b,
        3 => a <= b,
        4 => a > b,
        _ => a >= b,
    }
}

macro_rules! mask_impl {
    ($T:ident, $N:expr, ($($i:tt),*), $V:ident, $mk:expr) => { mask_impl!($T, $N, ($($i),*), $V, $mk, |m| m); };
    ($T:ident, $N:expr, ($($i:tt),*), $V:ident, $mk:expr, $conv:expr) => {
        impl MaskT for $T {
            const N: usize = $N;
            const NAME: &'static str = stringify!($T);
            fn make(b: &[bool]) -> Self { <$T>::new($(b[$i]),*) }
            fn splat_(b: bool) -> Self { <$T>::splat(b) }
            fn from_array_(b: &[bool]) -> Self { <$T>::from_array([$(b[$i]),*]) }
            fn from_arr_trait(b: &[bool]) -> Self { <$T>::from([$(b[$i]),*]) }
            fn default_() -> Self { <$T>::default() }
            fn any_(self) -> bool { self.any() }
            fn all_(self) -> bool { self.all() }
            fn bitmask_(self) -> u32 { self.bitmask() }
            fn test_(&self, i: usize) -> bool { self.test(i) }
            fn set_(&mut self, i: usize, v: bool) { self.set(i, v) }
            fn and(self, o: Self) -> Self { self & o }
            fn or(self, o: Self) -> Self { self | o }
            fn xor(self, o: Self) -> Self { self ^ o }
            fn and_assign(&mut self, o: Self) { *self &= o }
            fn or_assign(&mut self, o: Self) { *self |= o }
            fn xor_assign(&mut self, o: Self) { *self ^= o }
            fn not_(self) -> Self { !self }
            fn bools(self) -> Vec<bool> { let a: [bool; $N] = self.into(); a.to_vec() }
            fn u32s(self) -> Vec<u32> { let a: [u32; $N] = self.into(); a.to_vec() }
            fn select_(self) -> (Vec<u64>, Vec<u64>, Vec<u64>) {
                // operands with every kind of bit set: NaN payloads against negative ordinary values
                let a = <$V>::from_array(core::array::from_fn(|i| <$V as Flat>::S::tag(4 * i)));
                let b = <$V>::from_array(core::array::from_fn(|i| <$V as Flat>::S::tag(4 * i + 1)));
                let r = <$V>::select(($conv)(self), a, b);
                (r.to_array().iter().map(|x| x.bits()).collect(), a.to_array().iter().map(|x| x.bits()).collect(), b.to_array().iter().map(|x| x.bits()).collect())
            }
            const NCMP: usize = 6 * 6 * 3;
            fn from_cmp(k: usize) -> (Self, Vec<bool>) {
                // operand lanes walk through F; comparison kind k % 6
                let kind = k % 6;
                let p = (k / 6) % 6;
                let q = k / 36; // lane shift 0..3
                let a: Vec<f32> = (0..4).map(|i| F[(p + i * (q + 1)) % 6]).collect();
                let b: Vec<f32> = (0..4).map(|i| F[(p * 5 + i * 2 + q) % 6]).collect();
                let mk: fn(&[f32], &[f32], usize) -> $T = $mk;
                let m = mk(&a, &b, kind);
                (m, (0..$N).map(|i| cmp6f(kind, a[i], b[i])).collect())
            }
        }
    };
}
macro_rules! cmpk {
    ($va:expr, $vb:expr, $k:expr) => {
        match $k {
            0 => $va.cmpeq($vb),
            1 => $va.cmpne($vb),
            2 => $va.cmplt($vb),
            3 => $va.cmple($vb),
            4 => $va.cmpgt($vb),
            _ => $va.cmpge($vb),
        }
    };
}
mask_impl!(BVec2, 2, (0, 1), Vec2, |a, b, k| cmpk!(Vec2::new(a[0], a[1]), Vec2::new(b[0], b[1]), k));
mask_impl!(BVec3, 3, (0, 1, 2), Vec3, |a, b, k| cmpk!(Vec3::new(a[0], a[1], a[2]), Vec3::new(b[0], b[1], b[2]), k));
mask_impl!(BVec4, 4, (0, 1, 2, 3), DVec4, |a, b, k| cmpk!(
    DVec4::new(a[0] as f64, a[1] as f64, a[2] as f64, a[3] as f64),
    DVec4::new(b[0] as f64, b[1] as f64, b[2] as f64, b[3] as f64),
    k
));
// hidden fourth lane of the operands carries garbage (a[3], b[3]) through from_vec4
mask_impl!(BVec3A, 3, (0, 1, 2), Vec3A, |a, b, k| cmpk!(Vec3A::from_vec4(Vec4::new(a[0], a[1], a[2], a[3])), Vec3A::from_vec4(Vec4::new(b[0], b[1], b[2], b[3])), k));
#[cfg(not(feature = "scalar"))]
mask_impl!(BVec4A, 4, (0, 1, 2, 3), Vec4, |a, b, k| cmpk!(Vec4::new(a[0], a[1], a[2], a[3]), Vec4::new(b[0], b[1], b[2], b[3]), k));
// scalar-math: Vec4 comparisons return BVec4; the (separate) BVec4A type is
// only reachable through their boolean API, so the "comparison result" operand is built by new()
#[cfg(feature = "scalar")]
mask_impl!(BVec4A, 4, (0, 1, 2, 3), Vec4, |a, b, k| BVec4A::new(cmp6f(k, a[0], b[0]), cmp6f(k, a[1], b[1]), cmp6f(k, a[2], b[2]), cmp6f(k, a[3], b[3])),
    // no select of the scalar-math build takes this type: it is consumed through its boolean array
    |m: BVec4A| { let a: [bool; 4] = m.into(); BVec4::from_array(a) });
#[cfg(not(feature = "scalar"))]
type M3A = BVec3A;
#[cfg(not(feature = "scalar"))]
type M4A = BVec4A;
#[cfg(feature = "scalar")]
type M3A = BVec3A;
#[cfg(feature = "scalar")]
type M4A = BVec4;

#[derive(Clone, Debug, PartialEq, Eq, Hash)]
struct MState {
    raw: [u8; 16],
    model: [bool; 4],
}
#[derive(Clone, Debug, PartialEq)]
enum MAct {
    Set(usize, bool),
    And(u32, bool),
    Or(u32, bool),
    Xor(u32, bool),
    Not,
    Cmp(usize),
}
struct MaskModel<M: MaskT>(PhantomData<M>);

fn bits_of(m: u32, n: usize) -> Vec<bool> {
    (0..n).map(|i| m >> i & 1 == 1).collect()
}
fn hash_of<T: Hash>(t: &T) -> u64 {
    let mut h = std::collections::hash_map::DefaultHasher::new();
    t.hash(&mut h);
    h.finish()
}

/// every observation of the real mask must be the function of the model's N booleans
fn observe<M: MaskT>(s: &MState) -> Option<(String, String)> {
    let m = M::unraw(&s.raw);
    let b = &s.model[..M::N];
    let fail = |op: &str, got: String, want: String| Some((op.to_string(), format!("mask model={:?} raw={:02x?}: {op} got {got} want {want}", b, &s.raw)));
    let any = b.iter().any(|x| *x);
    let all = b.iter().all(|x| *x);
    let bm: u32 = b.iter().enumerate().map(|(i, x)| (*x as u32) << i).sum();
    if m.any_() != any {
        return fail("any", m.any_().to_string(), any.to_string());
    }
    if m.all_() != all {
        return fail("all", m.all_().to_string(), all.to_string());
    }
    if m.bitmask_() != bm {
        return fail("bitmask", format!("{:#b}", m.bitmask_()), format!("{:#b}", bm));
    }
    for i in 0..M::N {
        if m.test_(i) != b[i] {
            return fail("test", format!("test({i})={}", m.test_(i)), b[i].to_string());
        }
    }
    for i in [M::N, M::N + 1, M::N + 2, usize::MAX] {
        if catch(|| m.test_(i)).is_ok() {
            return fail("test", format!("test({i}) returned"), "panic".into());
        }
        for v in [false, true] {
            let mut c = m;
            if catch(move || {
                c.set_(i, v);
                c
            })
            .is_ok()
            {
                return fail("set", format!("set({i},{v}) returned"), "panic".into());
            }
        }
    }
    let canon = M::make(b);
    if !(m == canon) || m != canon {
        return fail("eq", "m != new(model)".into(), "equal".into());
    }
    for i in 0..M::N {
        let mut f = b.to_vec();
        f[i] = !f[i];
        let other = M::make(&f);
        if m == other || !(m != other) {
            return fail("eq", format!("m == new(model with lane {i} flipped)"), "not equal".into());
        }
    }
    if hash_of(&m) != hash_of(&canon) {
        return fail("hash", "hash differs from new(model)".into(), "equal hashes for equal masks".into());
    }
    if m.bools() != b {
        return fail("into_bool_array", format!("{:?}", m.bools()), format!("{:?}", b));
    }
    let wu: Vec<u32> = b.iter().map(|x| if *x { u32::MAX } else { 0 }).collect();
    if m.u32s() != wu {
        return fail("into_u32_array", format!("{:x?}", m.u32s()), format!("{:x?}", wu));
    }
    // select consumes the mask lane by lane, whatever representation the operations left behind
    {
        let (r, ta, tb) = m.select_();
        let want: Vec<u64> = (0..M::N).map(|i| if b[i] { ta[i] } else { tb[i] }).collect();
        if r != want {
            return fail("select", format!("{:x?}", r), format!("{:x?}", want));
        }
    }
    let disp = format!("[{}]", b.iter().map(|x| x.to_string()).collect::<Vec<_>>().join(", "));
    if format!("{}", m) != disp {
        return fail("display", format!("{}", m), disp);
    }
    let dbg = format!("{}({})", M::NAME, b.iter().map(|x| if *x { "0xffffffff".to_string() } else { "0x0".to_string() }).collect::<Vec<_>>().join(", "));
    if format!("{:?}", m) != dbg {
        return fail("debug", format!("{:?}", m), dbg);
    }
    None
}

impl<M: MaskT> Model for MaskModel<M> {
    type State = MState;
    type Action = MAct;
    fn init_states(&self) -> Vec<MState> {
        let mut v = vec![];
        let mut push = |m: M, b: Vec<bool>| {
            let mut model = [false; 4];
            model[..M::N].copy_from_slice(&b);
            v.push(MState { raw: m.raw(), model });
        };
        for k in 0..(1u32 << M::N) {
            let b = bits_of(k, M::N);
            push(M::make(&b), b.clone());
            push(M::from_array_(&b), b.clone());
            push(M::from_arr_trait(&b), b.clone());
        }
        push(M::splat_(false), vec![false; M::N]);
        push(M::splat_(true), vec![true; M::N]);
        push(M::default_(), vec![false; M::N]);
        v
    }
    fn actions(&self, _s: &MState, a: &mut Vec<MAct>) {
        for i in 0..M::N {
            a.push(MAct::Set(i, false));
            a.push(MAct::Set(i, true));
        }
        for k in 0..(1u32 << M::N) {
            for assign in [false, true] {
                a.push(MAct::And(k, assign));
                a.push(MAct::Or(k, assign));
                a.push(MAct::Xor(k, assign));
            }
        }
        a.push(MAct::Not);
        for k in 0..M::NCMP {
            a.push(MAct::Cmp(k));
        }
    }
    fn next_state(&self, s: &MState, a: MAct) -> Option<MState> {
        let mut m = M::unraw(&s.raw);
        let mut b = s.model;
        match a {
            MAct::Set(i, v) => {
                m.set_(i, v);
                b[i] = v;
            }
            MAct::And(k, assign) => {
                let o = bits_of(k, M::N);
                if assign {
                    m.and_assign(M::make(&o))
                } else {
                    m = m.and(M::make(&o))
                }
                for i in 0..M::N {
                    b[i] &= o[i];
                }
            }
            MAct::Or(k, assign) => {
                let o = bits_of(k, M::N);
                if assign {
                    m.or_assign(M::make(&o))
                } else {
                    m = m.or(M::make(&o))
                }
                for i in 0..M::N {
                    b[i] |= o[i];
                }
            }
            MAct::Xor(k, assign) => {
                let o = bits_of(k, M::N);
                if assign {
                    m.xor_assign(M::make(&o))
                } else {
                    m = m.xor(M::make(&o))
                }
                for i in 0..M::N {
                    b[i] ^= o[i];
                }
            }
            MAct::Not => {
                m = m.not_();
                for i in 0..M::N {
                    b[i] = !b[i];
                }
            }
            MAct::Cmp(k) => {
                // combine with a comparison result whose operands had garbage in hidden lanes
                let (c, cb) = M::from_cmp(k);
                m = m.xor(c);
                for i in 0..M::N {
                    b[i] ^= cb[i];
                }
            }
        }
        Some(MState { raw: m.raw(), model: b })
    }
    fn properties(&self) -> Vec<Property<Self>> {
        vec![Property::always("observations are functions of the N boolean lanes", |_, s| observe::<M>(s).is_none())]
    }
}

fn mask_model<M: MaskT>(rep: &mut Report) {
    run_bfs(rep, &format!("{}/mask-algebra model (to fixpoint)", M::NAME), M::NAME, MaskModel::<M>(PhantomData), true, |_, s| {
        observe::<M>(s).unwrap_or(("?".into(), "no failing observation on re-evaluation".into()))
    });
}

// ------------------------------------------------------------------------------------------------
// Part 2: comparisons and select on every numeric vector type
fn cmp6<S: PartialOrd>(k: usize, a: &S, b: &S) -> bool {
    match k {
        0 => a == b,
        1 => a != b,
        2 => a < b,
        3 => a <= b,
        4 => a > b,
        _ => a >= b,
    }
}
fn small_lattice<S: Sc>() -> Vec<S> {
    let l = S::lattice(false);
    if l.len() <= 64 {
        return l;
    }
    // floats / 8-16 bit ints: a 40-value cut that keeps extremes, zeros, NaNs
    let mut v: Vec<S> = vec![];
    let step = l.len() / 24;
    for (i, x) in l.iter().enumerate() {
        if i < 12 || i % step == 0 || i + 6 > l.len() {
            v.push(*x);
        }
    }
    if S::IS_FLOAT {
        for k in [0usize, 2, 4] {
            v.push(S::tag(k));
        }
    }
    let mut seen = std::collections::HashSet::new();
    v.retain(|x| seen.insert(x.bits()));
    v
}

macro_rules! cmpsel {
    ($rep:ident, $V:ident, $M:ident) => {{
        type V = $V;
        type S = <V as Flat>::S;
        const N: usize = <V as Flat>::N;
        let tn = stringify!($V);
        let lat = small_lattice::<S>();
        let l = lat.len() as u64;
        $rep.sweep(&format!("{tn}/cmp*/LATTICE^2({l}) x lane-isolation"), l * l * (N as u64 + 1), |idx, acc| {
            let d = digits(idx, [l, l, N as u64 + 1]);
            let mut a = [S::zero(); N];
            let mut b = [S::zero(); N];
            for i in 0..N {
                if d[2] == N || d[2] == i {
                    a[i] = lat[d[0]];
                    b[i] = lat[d[1]];
                } else {
                    a[i] = S::fin(i);
                    b[i] = S::fin(3 - i);
                }
            }
            let (va, vb) = (V::build(&a), V::build(&b));
            for k in 0..6 {
                let g = cmpk!(va, vb, k).bitmask();
                let mut w = 0u32;
                for i in 0..N {
                    w |= (cmp6(k, &a[i], &b[i]) as u32) << i;
                }
                acc.eval(true, g as u64 | (k as u64) << 8);
                if g != w {
                    acc.fail(&format!("{tn}::{}", ["cmpeq", "cmpne", "cmplt", "cmple", "cmpgt", "cmpge"][k]), format!("a={} b={} got={:#b} want={:#b}", show(&a), show(&b), g, w));
                }
            }
        });
        $rep.sweep(&format!("{tn}/select/all masks x tagged operands"), (1u64 << N) * 4, |idx, acc| {
            let mk = idx % (1 << N);
            let round = (idx >> N) as usize;
            let a: Vec<S> = (0..N).map(|i| S::tag(i + round * 8)).collect();
            let b: Vec<S> = (0..N).map(|i| S::tag(i + 4 + round * 8)).collect();
            let mb: Vec<bool> = (0..N).map(|i| mk >> i & 1 == 1).collect();
            let m = <$M as Mask>::build(&mb);
            let g = V::select(m, V::build(&a), V::build(&b)).lanes();
            let w: Vec<S> = (0..N).map(|i| if mb[i] { a[i] } else { b[i] }).collect();
            acc.eval(true, idx);
            if !bits_eq(&g, &w) {
                acc.fail(&format!("{tn}::select"), format!("mask={:?} a={} b={} got={} want={}", mb, show(&a), show(&b), show(&g), show(&w)));
            }
        });
    }};
}

fn main() {
    let mut rep = Report::new("C15", "model_checking");
    silence_panics();
    rep.rule("E2: states = (raw bytes of a real mask, [bool;N] model), transitions = set/&/|/^/!/xor-with-comparison-result calling the real operations, BFS to fixpoint, invariant = every observer (any/all/bitmask/test/==/Hash/Into<[bool;N]>/Into<[u32;N]>/Display/Debug, invalid indices panic) is the function of the model; E1: cmp* of every numeric vector type on LATTICE^2 x lane isolation vs the primitive comparison, select on all 2^N masks x tagged lanes (bits)");
    mask_model::<BVec2>(&mut rep);
    mask_model::<BVec3>(&mut rep);
    mask_model::<BVec4>(&mut rep);
    mask_model::<BVec3A>(&mut rep);
    mask_model::<BVec4A>(&mut rep);
    cmpsel!(rep, Vec2, BVec2);
    cmpsel!(rep, Vec3, BVec3);
    cmpsel!(rep, Vec3A, M3A);
    cmpsel!(rep, Vec4, M4A);
    cmpsel!(rep, DVec2, BVec2);
    cmpsel!(rep, DVec3, BVec3);
    cmpsel!(rep, DVec4, BVec4);
    cmpsel!(rep, I8Vec2, BVec2);
    cmpsel!(rep, I8Vec3, BVec3);
    cmpsel!(rep, I8Vec4, BVec4);
    cmpsel!(rep, U8Vec2, BVec2);
    cmpsel!(rep, U8Vec3, BVec3);
    cmpsel!(rep, U8Vec4, BVec4);
    cmpsel!(rep, I16Vec2, BVec2);
    cmpsel!(rep, I16Vec3, BVec3);
    cmpsel!(rep, I16Vec4, BVec4);
    cmpsel!(rep, U16Vec2, BVec2);
    cmpsel!(rep, U16Vec3, BVec3);
    cmpsel!(rep, U16Vec4, BVec4);
    cmpsel!(rep, IVec2, BVec2);
    cmpsel!(rep, IVec3, BVec3);
    cmpsel!(rep, IVec4, BVec4);
    cmpsel!(rep, UVec2, BVec2);
    cmpsel!(rep, UVec3, BVec3);
    cmpsel!(rep, UVec4, BVec4);
    cmpsel!(rep, I64Vec2, BVec2);
    cmpsel!(rep, I64Vec3, BVec3);
    cmpsel!(rep, I64Vec4, BVec4);
    cmpsel!(rep, U64Vec2, BVec2);
    cmpsel!(rep, U64Vec3, BVec3);
    cmpsel!(rep, U64Vec4, BVec4);
    cmpsel!(rep, USizeVec2, BVec2);
    cmpsel!(rep, USizeVec3, BVec3);
    cmpsel!(rep, USizeVec4, BVec4);
    rep.sample(json!({"model": "BVec3A", "trace": ["init new(true,false,true)", "Set(1,true)", "Cmp(17) (xor with Vec3A comparison whose operands had NaN/inf in the hidden lane)", "Not"], "checked_in_every_state": "any all bitmask test(0..N) test/set(N..N+2,usize::MAX) panic == != Hash Into<[bool;3]> Into<[u32;3]> Display Debug"}));
    rep.sample(json!({"space": "Vec4/cmp*", "case": "lane 3 = (NaN, NaN), others finite", "want": "cmpne lane true, all others false"}));
    // every operator trait impl of the tree (inventory from the rustdoc JSON): reference, assign and
    // scalar forms agree with the by-value form decided above
    harness::opforms::run(&mut rep, "mask", harness::opforms::OPFORMS_MASK);
    std::process::exit(rep.finish());
}
