//! C07 — back-end and build-configuration independence of the SIMD-backed types (engine E3).
//! The same enumerator is built in several configurations of the working tree. Each build writes
//!   <work>/C07.<cfg>.<tier>.stream      one line per (operation, input) with the raw output bits —
//!                                        compared byte-for-byte inside the group {sse2, fma, native};
//!   <work>/C07.<cfg>.<tier>.xb          one line per (operation, input) with a comparison class and
//!                                        an analytic slack computed by the harness in f64 from the
//!                                        inputs (identical in every build) — compared pairwise between
//!                                        {sse2, scalar, coresimd} by `c07 --compare`.
//! Classes: I = IEEE value equality per output (lane-wise operations, data movement, strings);
//!          T = |a - b| <= 2*slack (re-associated sums of products);
//!          D = discrete outcome, equal unless its margin from the threshold is <= slack.
#![allow(clippy::all)]
use glam::*;
use harness::rep::*;
use harness::refm::*;
use serde_json::json;
use std::fmt::Write as FW;
use std::io::Write;

const E: f64 = EPS32;

struct Out {
    bits: String,
    xb: String,
    n: u64,
}
impl Out {
    fn rec(&mut self, op: &str, idx: usize, class: char, slack: f64, margin: f64, vals: &[f32]) {
        let _ = write!(self.bits, "{op}#{idx}\t");
        let _ = write!(self.xb, "{op}#{idx}\t{class}\t{:e}\t{:e}\t", slack, margin);
        for v in vals {
            let _ = write!(self.bits, "{:08x} ", v.to_bits());
            let _ = write!(self.xb, "{:08x} ", v.to_bits());
        }
        self.bits.push('\n');
        self.xb.push('\n');
        self.n += 1;
    }
    fn rec_str(&mut self, op: &str, idx: usize, s: &str) {
        let _ = writeln!(self.bits, "{op}#{idx}\t{s}");
        let _ = writeln!(self.xb, "{op}#{idx}\tS\t0\t0\t{s}");
        self.n += 1;
    }
    /// bits-only record (programs with reductions: compared only inside the bit-identity group)
    fn rec_bits(&mut self, op: &str, idx: usize, vals: &[f32]) {
        let _ = write!(self.bits, "{op}#{idx}\t");
        for v in vals {
            let _ = write!(self.bits, "{:08x} ", v.to_bits());
        }
        self.bits.push('\n');
        self.n += 1;
    }
}

fn vecs4() -> Vec<[f32; 4]> {
    let mut v: Vec<[f32; 4]> = vec![
        [0.0, 0.0, 0.0, 0.0],
        [1.0, 2.0, 3.0, 4.0],
        [-0.5, 0.25, 2.0, -3.0],
        [1.0, 0.0, 0.0, 0.0],
        [0.0, -1.0, 0.0, 0.0],
        [0.6, 0.0, 0.8, 0.0],
        [0.5, 0.5, 0.5, 0.5],
        [1e-3, -1e3, 7.5, 0.1],
        [3.1415927, 2.7182817, 1.4142135, 1.7320508],
        [-0.0, 0.0, -0.0, 0.0],
        [1e10, -1e10, 1.0, 3.0],
        [1e-12, 2e-12, -3e-12, 1e-12],
        [0.33333334, 0.6666667, 0.1, 0.2],
        [8388607.5, 2.5, -3.5, 0.49999997],
        [1.0000001, 0.99999994, -1.0000001, 1.0],
        [123456.79, -0.001, 99.5, 12.25],
        [-1.0, -2.0, -3.0, -4.0],
        [1.0, 2.0, 3.000001, 4.0],
        [2.5, -2.5, 0.5, -0.5],
        [0.1, 0.2, 0.3, 0.4],
    ];
    // cancellation pairs: (a, -a(1+d))
    v.push([1.0 + 1.0 / 1024.0, -2.0, 3.0, -4.0]);
    v.push([7.0, 7.0, -7.0, 7.0]);
    // the ends of the finite range ("all finite inputs"): values whose pairwise sums overflow, and
    // subnormals with odd mantissas (where halving is inexact)
    v.push([f32::MAX, -f32::MAX, 2.5e38, f32::MAX * 0.75]);
    v.push([3e38, 3e38, -3e38, 1e38]);
    v.push([f32::from_bits(1), f32::from_bits(3), -f32::from_bits(5), f32::from_bits(0x007f_ffff)]);
    v.push([f32::from_bits(0x0080_0001), -f32::from_bits(7), f32::MIN_POSITIVE, f32::from_bits(0x0000_0101)]);
    v
}
fn scal() -> Vec<f32> {
    vec![0.0, 1.0, -1.0, 0.5, 2.0, -2.5, 1e-3, 0.33333334]
}
fn quats() -> Vec<Quat> {
    let mut v = vec![Quat::IDENTITY, Quat::from_xyzw(0.5, -0.5, 0.5, 0.5), Quat::from_xyzw(0.0, 1.0, 0.0, 0.0)];
    for (ax, an) in [([0.6f32, 0.0, 0.8], 1.1f32), ([0.0, 0.0, 1.0], 3.0), ([0.26726124, 0.5345225, 0.80178374], -2.2), ([1.0, 0.0, 0.0], 1e-3), ([0.70710677, 0.70710677, 0.0], 3.1405926)] {
        v.push(Quat::from_axis_angle(Vec3::from_array(ax), an));
    }
    v.push(Quat::from_xyzw(1.0, 2.0, 3.0, 4.0));
    v.push(-Quat::from_xyzw(0.5, -0.5, 0.5, 0.5));
    v
}
fn sabs(a: &[f32], b: &[f32]) -> f64 {
    a.iter().zip(b).map(|(x, y)| (*x as f64 * *y as f64).abs()).sum()
}
fn l1(a: &[f32]) -> f64 {
    a.iter().map(|x| (*x as f64).abs()).sum()
}
fn linf(a: &[f32]) -> f64 {
    a.iter().fold(0.0, |m, x| m.max((*x as f64).abs()))
}

fn enumerate(out: &mut Out, thorough: bool) {
    let vs = vecs4();
    let ss = scal();
    let nv = vs.len();
    // ------------------------------------------------------------------ Vec3A and Vec4
    macro_rules! vec_ops {
        ($T:ident, $N:expr, $mk:expr, $tn:literal) => {{
            let mk: fn(&[f32; 4]) -> $T = $mk;
            for (i, a) in vs.iter().enumerate() {
                let va = mk(a);
                let la = &a[..$N];
                macro_rules! un {
                    ($name:literal, $e:expr) => { out.rec(concat!($tn, "::", $name), i, 'I', 0.0, 0.0, &$e.to_array()); };
                }
                un!("neg", -va); un!("abs", va.abs()); un!("signum", va.signum()); un!("floor", va.floor()); un!("ceil", va.ceil()); un!("round", va.round());
                un!("trunc", va.trunc()); un!("fract", va.fract()); un!("fract_gl", va.fract_gl()); un!("recip", va.recip()); un!("exp", va.exp()); un!("powf", va.powf(1.5));
                out.rec(concat!($tn, "::min_max_element"), i, 'I', 0.0, 0.0, &[va.min_element(), va.max_element(), va.min_position() as f32, va.max_position() as f32]);
                out.rec(concat!($tn, "::masks"), i, 'I', 0.0, 0.0, &[va.is_negative_bitmask() as f32, va.is_nan_mask().bitmask() as f32, va.is_finite() as u32 as f32]);
                let ln = norm(&la.iter().map(|x| *x as f64).collect::<Vec<_>>());
                out.rec(concat!($tn, "::length"), i, 'T', 2.0 * ($N as f64 + 1.0) * E * ln, 0.0, &[va.length()]);
                out.rec(concat!($tn, "::length_squared"), i, 'T', 2.0 * $N as f64 * E * ln * ln, 0.0, &[va.length_squared()]);
                out.rec(concat!($tn, "::element_sum"), i, 'T', 2.0 * $N as f64 * E * l1(la), 0.0, &[va.element_sum()]);
                out.rec(concat!($tn, "::element_product"), i, 'T', 2.0 * $N as f64 * E * la.iter().map(|x| (*x as f64).abs()).product::<f64>(), 0.0, &[va.element_product()]);
                if ln > 1e-15 {
                    out.rec(concat!($tn, "::length_recip"), i, 'T', 2.0 * ($N as f64 + 2.0) * E / ln, 0.0, &[va.length_recip()]);
                    out.rec(concat!($tn, "::normalize"), i, 'T', 2.0 * ($N as f64 + 3.0) * E, 0.0, &va.normalize().to_array());
                    out.rec(concat!($tn, "::clamp_length"), i, 'T', 2.0 * ($N as f64 + 4.0) * E * ln.max(2.0), 0.0, &va.clamp_length(0.5, 2.0).to_array());
                }
                // discrete outcomes with their margin from the deciding threshold
                let l2 = ln * ln;
                out.rec(concat!($tn, "::is_normalized"), i, 'D', 2.0 * $N as f64 * E * l2, ((l2 - 1.0).abs() - 2e-4).abs(), &[va.is_normalized() as u32 as f32]);
                out.rec(concat!($tn, "::try_normalize.is_some"), i, 'D', 0.0, if ln > 1e-15 { 1.0 } else { 0.0 }, &[va.try_normalize().is_some() as u32 as f32]);
                out.rec_str(concat!($tn, "::Debug"), i, &format!("{:?}", va));
                out.rec_str(concat!($tn, "::Display"), i, &format!("{} {:.3}", va, va));
                out.rec_str(concat!($tn, "::format flags"), i, &format!("{:#?}|{:.2?}|{:+.1?}|{:10.3?}|{:.3}|{:+.1}|{:12}|{:<8.2}", va, va, va, va, va, va, va, va).replace('\n', "\\n"));
                for (j, b) in vs.iter().enumerate() {
                    if !thorough && (i + j) % 3 != 0 { continue; }
                    let vb = mk(b);
                    let lb = &b[..$N];
                    let k = i * nv + j;
                    macro_rules! bi {
                        ($name:literal, $e:expr) => { out.rec(concat!($tn, "::", $name), k, 'I', 0.0, 0.0, &$e.to_array()); };
                    }
                    bi!("add", va + vb); bi!("sub", va - vb); bi!("mul", va * vb); bi!("div", va / vb); bi!("rem", va % vb); bi!("min", va.min(vb)); bi!("max", va.max(vb));
                    bi!("copysign", va.copysign(vb)); bi!("div_euclid", va.div_euclid(vb)); bi!("rem_euclid", va.rem_euclid(vb)); bi!("mul_add", va.mul_add(vb, va));
                    bi!("select", <$T>::select(va.cmplt(vb), va, vb)); bi!("midpoint", va.midpoint(vb));
                    out.rec(concat!($tn, "::cmp"), k, 'I', 0.0, 0.0, &[va.cmpeq(vb).bitmask() as f32, va.cmplt(vb).bitmask() as f32, va.cmpge(vb).bitmask() as f32, (va == vb) as u32 as f32]);
                    let s = sabs(la, lb);
                    out.rec(concat!($tn, "::dot"), k, 'T', 2.0 * $N as f64 * E * s, 0.0, &[va.dot(vb)]);
                    let dl: Vec<f64> = la.iter().zip(lb).map(|(x, y)| (*x as f64).abs() + (*y as f64).abs()).collect();
                    let sd = norm(&dl);
                    out.rec(concat!($tn, "::distance"), k, 'T', 2.0 * ($N as f64 + 2.0) * E * sd, 0.0, &[va.distance(vb)]);
                    out.rec(concat!($tn, "::lerp"), k, 'T', 6.0 * E * (l1(la) + l1(lb)), 0.0, &va.lerp(vb, 0.3).to_array());
                    let bb = sabs(lb, lb);
                    if bb > 1e-20 {
                        out.rec(concat!($tn, "::project_onto"), k, 'T', 2.0 * (2.0 * $N as f64 + 3.0) * E * linf(lb) * s / bb, 0.0, &va.project_onto(vb).to_array());
                        out.rec(concat!($tn, "::reject_from"), k, 'T', 2.0 * (2.0 * $N as f64 + 4.0) * E * (linf(la) + linf(lb) * s / bb), 0.0, &va.reject_from(vb).to_array());
                    }
                    out.rec(concat!($tn, "::abs_diff_eq"), k, 'D', 2.0 * E * (linf(la) + linf(lb)), la.iter().zip(lb).map(|(x, y)| (((*x - *y) as f64).abs() - 0.5).abs()).fold(f64::INFINITY, f64::min), &[va.abs_diff_eq(vb, 0.5) as u32 as f32]);
                }
                for (j, s) in ss.iter().enumerate() {
                    let k = i * 8 + j;
                    out.rec(concat!($tn, "::scalar_ops"), k, 'I', 0.0, 0.0, &[(va * *s).to_array(), (va + *s).to_array(), (*s - va).to_array(), (va / *s).to_array(), (va % *s).to_array(), (*s * va).to_array(), (*s / va).to_array(), (*s + va).to_array(), (*s % va).to_array()].concat());
                    let (mut t1, mut t2, mut t3, mut t4, mut t5) = (va, va, va, va, va);
                    t1 *= *s; t2 /= *s; t3 += *s; t4 -= *s; t5 %= *s;
                    let (mut u1, mut u2, mut u3, mut u4, mut u5) = (va, va, va, va, va);
                    let vb = mk(&vs[(i + j) % nv]);
                    u1 *= vb; u2 /= vb; u3 += vb; u4 -= vb; u5 %= vb;
                    out.rec(concat!($tn, "::assign_forms"), k, 'I', 0.0, 0.0, &[t1.to_array(), t2.to_array(), t3.to_array(), t4.to_array(), t5.to_array(), u1.to_array(), u2.to_array(), u3.to_array(), u4.to_array(), u5.to_array()].concat());
                }
            }
        }};
    }
    vec_ops!(Vec3A, 3, |a| Vec3A::new(a[0], a[1], a[2]), "Vec3A");
    vec_ops!(Vec4, 4, |a| Vec4::new(a[0], a[1], a[2], a[3]), "Vec4");
    // Vec3A-only: cross, angle, orthonormal, swizzles
    for (i, a) in vs.iter().enumerate() {
        let va = Vec3A::new(a[0], a[1], a[2]);
        out.rec("Vec3A::swizzles", i, 'I', 0.0, 0.0, &[va.zxy().to_array(), va.yyx().to_array(), va.zzz().to_array()].concat());
        out.rec("Vec3A::extend_truncate", i, 'I', 0.0, 0.0, &[va.extend(9.0).to_array().to_vec(), va.truncate().to_array().to_vec()].concat());
        out.rec("Vec3A::any_orthogonal_vector", i, 'I', 0.0, 0.0, &va.any_orthogonal_vector().to_array());
        for (j, b) in vs.iter().enumerate() {
            let vb = Vec3A::new(b[0], b[1], b[2]);
            let k = i * nv + j;
            let sc: f64 = 6.0 * E * 2.0 * linf(&a[..3]) * linf(&b[..3]);
            out.rec("Vec3A::cross", k, 'T', sc, 0.0, &va.cross(vb).to_array());
        }
    }
    for (i, a) in vs.iter().enumerate() {
        let va = Vec4::new(a[0], a[1], a[2], a[3]);
        out.rec("Vec4::swizzles", i, 'I', 0.0, 0.0, &[va.wzyx().to_array(), va.xxww().to_array(), va.ywxz().to_array()].concat());
        out.rec("Vec4::truncate", i, 'I', 0.0, 0.0, &va.truncate().to_array());
    }
    // ------------------------------------------------------------------ Quat
    let qs = quats();
    for (i, q) in qs.iter().enumerate() {
        let qa = q.to_array();
        out.rec("Quat::conjugate_neg", i, 'I', 0.0, 0.0, &[q.conjugate().to_array(), (-*q).to_array()].concat());
        let n2: f64 = sabs(&qa, &qa);
        out.rec("Quat::length", i, 'T', 10.0 * E * n2.sqrt(), 0.0, &[q.length(), q.length_squared().sqrt()]);
        out.rec("Quat::normalize", i, 'T', 14.0 * E, 0.0, &q.normalize().to_array());
        out.rec("Quat::is_normalized", i, 'D', 8.0 * E * n2, ((n2 - 1.0).abs() - 2e-4).abs(), &[q.is_normalized() as u32 as f32]);
        out.rec_str("Quat::Debug", i, &format!("{:?} {}", q, q));
                out.rec_str("Quat::format flags", i, &format!("{:#?}|{:.2?}|{:+.1?}|{:10.3?}|{:.3}|{:+.1}|{:12}|{:<8.2}", q, q, q, q, q, q, q, q).replace('\n', "\\n"));
        let un = q.normalize();
        out.rec("Mat3A::from_quat", i, 'T', 12.0 * E * n2.max(1.0), 0.0, &Mat3A::from_quat(un).to_cols_array());
        out.rec("Mat4::from_quat", i, 'T', 12.0 * E * n2.max(1.0), 0.0, &Mat4::from_quat(un).to_cols_array());
        out.rec("Quat::to_euler", i, 'T', 64.0 * E * 1e3, 0.0, &{ let (a, b, c) = un.to_euler(EulerRot::YXZ); [a, b, c] });
        for (j, a) in vs.iter().enumerate() {
            let k = i * nv + j;
            let v = Vec3A::new(a[0], a[1], a[2]);
            let sl = 16.0 * E * n2 * norm(&[a[0] as f64, a[1] as f64, a[2] as f64]);
            out.rec("Quat::mul_vec3a", k, 'T', sl, 0.0, &(*q * v).to_array());
            out.rec("Quat::mul_vec3", k, 'T', sl, 0.0, &(*q * Vec3::from(v)).to_array());
        }
        for (j, p) in qs.iter().enumerate() {
            let k = i * qs.len() + j;
            let pa = p.to_array();
            let s = l1(&qa) * linf(&pa);
            out.rec("Quat::mul", k, 'T', 8.0 * E * s, 0.0, &(*q * *p).to_array());
            out.rec("Quat::add_sub", k, 'I', 0.0, 0.0, &[(*q + *p).to_array(), (*q - *p).to_array(), (*q * 0.5).to_array(), (*q * 0.3).to_array(), (*q / 3.0).to_array(), (*q / -0.7).to_array()].concat());
            let mut qm = *q;
            qm *= *p;
            out.rec("Quat::mul_assign_minus_mul", k, 'I', 0.0, 0.0, &(qm - *q * *p).to_array());
            out.rec("Quat::dot", k, 'T', 8.0 * E * sabs(&qa, &pa), 0.0, &[q.dot(*p)]);
            let (uq, up) = (q.normalize(), p.normalize());
            // interpolation: SIMD slerp uses its own sine approximation (accuracy 1e-6 class)
            // s inside [0, 1] and extrapolating (|s*theta| beyond 3*pi/2 exercises the SIMD range reduction)
            for (si, s) in [0.0f32, 0.3, 0.5, 1.0, -2.5, 3.5, 5.0, 9.25].iter().enumerate() {
                out.rec("Quat::slerp", k * 8 + si, 'T', 2e-5 * (1.0 + s.abs() as f64), 0.0, &uq.slerp(up, *s).to_array());
                out.rec("Quat::lerp", k * 8 + si, 'T', 16.0 * E * (1.0 + s.abs() as f64), 0.0, &uq.lerp(up, *s).to_array());
            }
            out.rec("Quat::angle_between", k, 'T', 4e-3, 0.0, &[uq.angle_between(up)]);
        }
    }
    // ------------------------------------------------------------------ matrices and affine types
    let m4s: Vec<Mat4> = {
        let mut v = vec![Mat4::IDENTITY, Mat4::from_cols_array(&[1.0, 2.0, 3.0, 4.0, -2.0, 1.0, 0.5, 3.0, 0.25, -1.0, 2.0, 1.5, 3.0, 0.0, -1.0, 2.0]), Mat4::perspective_rh(1.1, 1.6, 0.1, 50.0)];
        for q in qs.iter().take(6) {
            v.push(Mat4::from_scale_rotation_translation(Vec3::new(1.5, -0.5, 2.0), q.normalize(), Vec3::new(1.0, -2.0, 3.0)));
        }
        v.push(Mat4::from_cols_array(&[0.1, 0.2, 0.3, 0.4, 0.5, 0.6, 0.7, 0.8, 0.9, 1.0, 1.1, 1.25, 1.3, 1.4, 1.5, 1.75]));
        v
    };
    macro_rules! mat_ops {
        ($T:ident, $N:expr, $tn:literal, $from4:expr, $V:ident, $mkv:expr) => {{
            let from4: fn(&Mat4) -> $T = $from4;
            let mkv: fn(&[f32; 4]) -> $V = $mkv;
            let ms: Vec<$T> = m4s.iter().map(from4).collect();
            for (i, m) in ms.iter().enumerate() {
                let ca = m.to_cols_array();
                let mx = Mx::from_cols($N, &ca.iter().map(|x| *x as f64).collect::<Vec<_>>());
                out.rec(concat!($tn, "::transpose_neg"), i, 'I', 0.0, 0.0, &[m.transpose().to_cols_array(), (-*m).to_cols_array(), (*m * 2.0).to_cols_array()].concat());
                let (det, sdet) = mx.det_scale();
                out.rec(concat!($tn, "::determinant"), i, 'T', 4.0 * $N as f64 * E * sdet, 0.0, &[m.determinant()]);
                if det.abs() > 1e-6 * sdet {
                    let inv = mx.inverse();
                    let (_, sadj) = mx.adj();
                    let sl = (0..$N * $N).map(|k| 4.0 * $N as f64 * E * (sadj.a[k] / det.abs() + inv.a[k].abs() * sdet / det.abs())).fold(0.0, f64::max);
                    out.rec(concat!($tn, "::inverse"), i, 'T', sl, 0.0, &m.inverse().to_cols_array());
                }
                out.rec_str(concat!($tn, "::Debug"), i, &format!("{:?} {}", m, m));
                out.rec_str(concat!($tn, "::format flags"), i, &format!("{:#?}|{:.2?}|{:+.1?}|{:10.3?}|{:.3}|{:+.1}|{:12}|{:<8.2}", m, m, m, m, m, m, m, m).replace('\n', "\\n"));
                for (j, b) in ms.iter().enumerate() {
                    let k = i * ms.len() + j;
                    let cb = b.to_cols_array();
                    let s = l1(&ca) / $N as f64 * linf(&cb) * $N as f64;
                    out.rec(concat!($tn, "::mul"), k, 'T', 2.0 * $N as f64 * E * s, 0.0, &(*m * *b).to_cols_array());
                    out.rec(concat!($tn, "::add_sub"), k, 'I', 0.0, 0.0, &[(*m + *b).to_cols_array(), (*m - *b).to_cols_array()].concat());
                    out.rec(concat!($tn, "::eq"), k, 'I', 0.0, 0.0, &[(*m == *b) as u32 as f32]);
                }
                // element-wise scalar forms, operator and assign forms: no re-association slack at all
                for (j, sc) in [3.0f32, 0.1, -7.0, 1.0 / 3.0, 49.0].iter().enumerate() {
                    let k = i * 5 + j;
                    let (mut t1, mut t2, mut t3, mut t4) = (*m, *m, *m, *m);
                    t1 *= *sc; t2 /= *sc; t3 += ms[(i + j) % ms.len()]; t4 -= ms[(i + j) % ms.len()];
                    let mut t5 = *m;
                    t5 *= ms[(i + j) % ms.len()];
                    out.rec(concat!($tn, "::scalar_forms"), k, 'I', 0.0, 0.0, &[(*m * *sc).to_cols_array(), (*sc * *m).to_cols_array(), (*m / *sc).to_cols_array(), m.mul_scalar(*sc).to_cols_array(), m.div_scalar(*sc).to_cols_array(), t1.to_cols_array(), t2.to_cols_array(), t3.to_cols_array(), t4.to_cols_array()].concat());
                    // `*=` is the same product as `*` in the same build
                    out.rec(concat!($tn, "::mul_assign_minus_mul"), k, 'I', 0.0, 0.0, &(t5 - *m * ms[(i + j) % ms.len()]).to_cols_array());
                }
                for (j, a) in vs.iter().enumerate() {
                    let k = i * nv + j;
                    let s = linf(&ca) * l1(&a[..$N]);
                    out.rec(concat!($tn, "::mul_vec"), k, 'T', 2.0 * $N as f64 * E * s, 0.0, &(*m * mkv(a)).to_array());
                }
            }
        }};
    }
    mat_ops!(Mat2, 2, "Mat2", |m| Mat2::from_cols(m.x_axis.truncate().truncate(), m.y_axis.truncate().truncate()), Vec2, |a| Vec2::new(a[0], a[1]));
    mat_ops!(Mat3A, 3, "Mat3A", |m| Mat3A::from_mat4(*m), Vec3A, |a| Vec3A::new(a[0], a[1], a[2]));
    mat_ops!(Mat4, 4, "Mat4", |m| *m, Vec4, |a| Vec4::new(a[0], a[1], a[2], a[3]));
    for (i, m) in m4s.iter().enumerate() {
        let a3 = Affine3A::from_mat4(*m);
        let a2 = Affine2::from_mat3(Mat3::from_cols(m.x_axis.truncate().truncate().extend(0.0), m.y_axis.truncate().truncate().extend(0.0), m.w_axis.truncate().truncate().extend(1.0)));
        let c3 = a3.to_cols_array();
        let c2 = a2.to_cols_array();
        out.rec_str("Affine3A::Debug", i, &format!("{:?} {}", a3, a3));
                out.rec_str("Affine3A::format flags", i, &format!("{:#?}|{:.2?}|{:+.1?}|{:10.3?}|{:.3}|{:+.1}|{:12}|{:<8.2}", a3, a3, a3, a3, a3, a3, a3, a3).replace('\n', "\\n"));
        out.rec_str("Affine2::Debug", i, &format!("{:?} {}", a2, a2));
                out.rec_str("Affine2::format flags", i, &format!("{:#?}|{:.2?}|{:+.1?}|{:10.3?}|{:.3}|{:+.1}|{:12}|{:<8.2}", a2, a2, a2, a2, a2, a2, a2, a2).replace('\n', "\\n"));
        for (j, b) in m4s.iter().enumerate() {
            let k = i * m4s.len() + j;
            let b3 = Affine3A::from_mat4(*b);
            let s3 = (linf(&c3) * l1(&b3.to_cols_array()) / 3.0).max(linf(&c3));
            out.rec("Affine3A::mul", k, 'T', 8.0 * E * s3 * 4.0, 0.0, &(a3 * b3).to_cols_array());
            let b2 = Affine2::from_mat3(Mat3::from_cols(b.x_axis.truncate().truncate().extend(0.0), b.y_axis.truncate().truncate().extend(0.0), b.w_axis.truncate().truncate().extend(1.0)));
            let s2 = (linf(&c2) * l1(&b2.to_cols_array())).max(linf(&c2));
            out.rec("Affine2::mul", k, 'T', 8.0 * E * s2, 0.0, &(a2 * b2).to_cols_array());
            let (mut t3, mut t2) = (a3, a2);
            t3 *= b3; t2 *= b2;
            let d3: Vec<f32> = t3.to_cols_array().iter().zip((a3 * b3).to_cols_array()).map(|(x, y)| x - y).collect();
            let d2: Vec<f32> = t2.to_cols_array().iter().zip((a2 * b2).to_cols_array()).map(|(x, y)| x - y).collect();
            out.rec("Affine3A,Affine2::mul_assign_minus_mul", k, 'I', 0.0, 0.0, &[d3, d2].concat());
        }
        for (j, a) in vs.iter().enumerate() {
            let k = i * nv + j;
            let s = linf(&c3) * (l1(&a[..3]) + 1.0);
            out.rec("Affine3A::transform_point3a", k, 'T', 8.0 * E * s, 0.0, &a3.transform_point3a(Vec3A::new(a[0], a[1], a[2])).to_array());
            out.rec("Affine3A::transform_vector3", k, 'T', 8.0 * E * s, 0.0, &a3.transform_vector3(Vec3::new(a[0], a[1], a[2])).to_array());
            out.rec("Mat4::transform_point3a", k, 'T', 10.0 * E * linf(&m.to_cols_array()) * (l1(&a[..3]) + 1.0), 0.0, &Mat4::from(a3).transform_point3a(Vec3A::new(a[0], a[1], a[2])).to_array());
            out.rec("Affine2::transform_point2", k, 'T', 8.0 * E * linf(&c2) * (l1(&a[..2]) + 1.0), 0.0, &a2.transform_point2(Vec2::new(a[0], a[1])).to_array());
        }
    }
    // ------------------------------------------------------------------ constructors of the SIMD-backed types
    // (entries are computed by the same scalar formulas in every back-end: no re-association, class I)
    {
        let mut k = 0usize;
        for fov in [0.3f32, 0.7853982, 1.1, 1.5707964, 2.2, 2.9] {
            for (aspect, near, far) in [(1.6f32, 0.1f32, 50.0f32), (0.75, 1.0, 1.5), (2.35, 1e-3, 1e3)] {
                out.rec("Mat4::projection constructors", k, 'I', 0.0, 0.0, &[
                    Mat4::perspective_rh(fov, aspect, near, far).to_cols_array(), Mat4::perspective_lh(fov, aspect, near, far).to_cols_array(), Mat4::perspective_rh_gl(fov, aspect, near, far).to_cols_array(),
                    Mat4::perspective_infinite_rh(fov, aspect, near).to_cols_array(), Mat4::perspective_infinite_lh(fov, aspect, near).to_cols_array(),
                    Mat4::perspective_infinite_reverse_rh(fov, aspect, near).to_cols_array(), Mat4::perspective_infinite_reverse_lh(fov, aspect, near).to_cols_array(),
                    Mat4::orthographic_rh(-aspect, aspect, -1.0, 1.0, near, far).to_cols_array(), Mat4::orthographic_lh(-aspect, fov, -near, 1.0, near, far).to_cols_array(), Mat4::orthographic_rh_gl(-aspect, aspect, -fov, fov, near, far).to_cols_array(),
                ].concat());
                k += 1;
            }
        }
        for (i, a) in vs.iter().enumerate() {
            let ang = a[3] * 0.37 + a[0];
            if !ang.is_finite() || ang.abs() > 1e6 { continue; }
            let ax = Vec3::new(0.26726124, 0.5345225, 0.80178374);
            out.rec("rotation constructors", i, 'I', 0.0, 0.0, &[
                Quat::from_axis_angle(ax, ang).to_array().to_vec(), Quat::from_rotation_x(ang).to_array().to_vec(), Quat::from_rotation_y(ang).to_array().to_vec(), Quat::from_rotation_z(ang).to_array().to_vec(),
                Quat::from_scaled_axis(ax * ang).to_array().to_vec(), Quat::from_euler(EulerRot::ZXYEx, ang, 0.3, -ang * 0.5).to_array().to_vec(),
                Mat3A::from_axis_angle(ax, ang).to_cols_array().to_vec(), Mat3A::from_rotation_x(ang).to_cols_array().to_vec(), Mat3A::from_rotation_y(ang).to_cols_array().to_vec(), Mat3A::from_rotation_z(ang).to_cols_array().to_vec(),
                Mat3A::from_euler(EulerRot::YXZ, ang, 0.3, -ang * 0.5).to_cols_array().to_vec(), Mat3A::from_angle(ang).to_cols_array().to_vec(), Mat3A::from_scale_angle_translation(Vec2::new(2.0, 0.5), ang, Vec2::new(1.0, -3.0)).to_cols_array().to_vec(),
                Mat4::from_axis_angle(ax, ang).to_cols_array().to_vec(), Mat4::from_rotation_x(ang).to_cols_array().to_vec(), Mat4::from_rotation_y(ang).to_cols_array().to_vec(), Mat4::from_rotation_z(ang).to_cols_array().to_vec(),
                Mat4::from_euler(EulerRot::XZY, ang, 0.3, -ang * 0.5).to_cols_array().to_vec(), Mat2::from_angle(ang).to_cols_array().to_vec(), Mat2::from_scale_angle(Vec2::new(2.0, 0.5), ang).to_cols_array().to_vec(),
                Affine3A::from_axis_angle(ax, ang).to_cols_array().to_vec(), Affine3A::from_rotation_x(ang).to_cols_array().to_vec(), Affine2::from_angle(ang).to_cols_array().to_vec(), Affine2::from_scale_angle_translation(Vec2::new(2.0, 0.5), ang, Vec2::new(1.0, -3.0)).to_cols_array().to_vec(),
            ].concat());
        }
    }
    // ------------------------------------------------------------------ programs
    // (1) lane-wise alphabet on Vec3A / Vec4: compositions of exact lane-wise operations are IEEE-equal
    //     in every back-end, so these are recorded in both streams (class I)
    type F4 = fn(Vec4, Vec4) -> Vec4;
    let lane_ops: Vec<(&str, F4)> = vec![
        ("add", |a, b| a + b), ("sub", |a, b| a - b), ("mul", |a, b| a * b), ("div", |a, b| a / (b + 0.5)), ("min", |a, b| a.min(b)), ("max", |a, b| a.max(b)),
        ("abs", |a, _| a.abs()), ("neg", |a, _| -a), ("floor", |a, _| a.floor()), ("round", |a, _| a.round()), ("fract", |a, _| a.fract_gl()), ("recip", |a, _| (a + 2.0).recip()),
        ("rem", |a, b| a % (b + 0.25)), ("copysign", |a, b| a.copysign(b)), ("mul_add", |a, b| a.mul_add(b, a)), ("swz", |a, _| a.yzwx()), ("select", |a, b| Vec4::select(a.cmplt(b), b, a)), ("scale", |a, _| a * 0.75),
    ];
    let nl = lane_ops.len();
    let depth = if thorough { 3 } else { 2 };
    let seeds: Vec<usize> = vec![1, 2, 7, 8, 12, 15];
    let mut pidx = 0usize;
    for &si in &seeds {
        let (s0, s1) = (Vec4::from_array(vs[si]), Vec4::from_array(vs[(si + 5) % nv]));
        let total = nl.pow(depth as u32);
        for code in 0..total {
            let mut v = s0;
            let mut c = code;
            for _ in 0..depth {
                v = (lane_ops[c % nl].1)(v, s1);
                c /= nl;
            }
            out.rec("program/lanewise/Vec4", pidx, 'I', 0.0, 0.0, &v.to_array());
            let v3 = Vec3A::from_vec4(v);
            out.rec("program/lanewise/Vec3A", pidx, 'I', 0.0, 0.0, &(v3 * 1.5 - v3.zxy()).to_array());
            pidx += 1;
        }
    }
    // (2) sequences of length 8 over 3-operation sub-alphabets mixing reductions (bit-identity group only)
    type G = fn(&mut (Vec3A, Quat, Mat4));
    let mixed: Vec<(&str, G)> = vec![
        ("v=normalize(v+1)", |s| s.0 = (s.0 + 1.0).normalize()),
        ("v=q*v", |s| s.0 = s.1 * s.0),
        ("q=q*from_axis_angle(v)", |s| s.1 = (s.1 * Quat::from_axis_angle(Vec3::from(s.0.normalize_or(Vec3A::X)), 0.7)).normalize()),
        ("m=m*from_quat(q)", |s| s.2 = s.2 * Mat4::from_quat(s.1)),
        ("v=m.transform_point3a(v)", |s| s.0 = s.2.transform_point3a(s.0)),
        ("m=inverse(m)", |s| s.2 = s.2.inverse()),
        ("q=slerp(q, from_mat4(m))", |s| s.1 = s.1.slerp(Quat::from_mat4(&Mat4::from_quat(s.1)), 0.3)),
        ("v=cross(v, v.zxy)+dot", |s| s.0 = s.0.cross(s.0.zxy()) + s.0.dot(s.0.yzx())),
        ("v=v.lerp(len)", |s| s.0 = s.0.lerp(Vec3A::splat(s.0.length()), 0.25)),
    ];
    let nm = mixed.len();
    let len = if thorough { 8 } else { 6 };
    let mut tri = 0usize;
    for a in 0..nm {
        for b in a + 1..nm {
            for c in b + 1..nm {
                if !thorough && (a + b + c) % 4 != 0 {
                    continue;
                }
                let al = [a, b, c];
                for code in 0..3usize.pow(len as u32) {
                    let mut s = (Vec3A::new(0.3, -1.2, 2.0), Quat::from_xyzw(0.5, -0.5, 0.5, 0.5), Mat4::from_scale_rotation_translation(Vec3::new(1.1, 0.9, 1.25), Quat::from_axis_angle(Vec3::new(0.6, 0.0, 0.8), 0.4), Vec3::new(0.5, -1.0, 2.0)));
                    let mut cc = code;
                    for _ in 0..len {
                        (mixed[al[cc % 3]].1)(&mut s);
                        cc /= 3;
                    }
                    let mut vals = s.0.to_array().to_vec();
                    vals.extend_from_slice(&s.1.to_array());
                    vals.extend_from_slice(&s.2.to_cols_array());
                    out.rec_bits("program/mixed", tri * 100_000 + code, &vals);
                }
                tri += 1;
            }
        }
    }
}

fn parse_vals(s: &str) -> Vec<f32> {
    s.split_whitespace().map(|h| f32::from_bits(u32::from_str_radix(h, 16).unwrap())).collect()
}

/// pairwise comparison of two .xb streams; prints VIOLATION-style lines for the driver
fn compare(a_path: &str, b_path: &str, la: &str, lb: &str) -> (u64, Vec<String>) {
    let a = std::fs::read_to_string(a_path).expect("stream a");
    let b = std::fs::read_to_string(b_path).expect("stream b");
    let (al, bl): (Vec<&str>, Vec<&str>) = (a.lines().collect(), b.lines().collect());
    let mut bad = vec![];
    if al.len() != bl.len() {
        bad.push(format!("stream lengths differ: {la}: {} records, {lb}: {}", al.len(), bl.len()));
        return (0, bad);
    }
    let mut n = 0;
    for (x, y) in al.iter().zip(bl.iter()) {
        n += 1;
        let fx: Vec<&str> = x.splitn(5, '\t').collect();
        let fy: Vec<&str> = y.splitn(5, '\t').collect();
        if fx[0] != fy[0] || fx[1] != fy[1] || fx[2] != fy[2] {
            bad.push(format!("record headers differ (`{}` vs `{}`): the harness' own slack computation must be build independent", x, y));
            break;
        }
        let class = fx[1];
        let slack: f64 = fx[2].parse().unwrap();
        let margin: f64 = fx[3].parse().unwrap();
        let ok = match class {
            "S" => fx[4] == fy[4],
            "I" => {
                let (va, vb) = (parse_vals(fx[4]), parse_vals(fy[4]));
                va.len() == vb.len() && va.iter().zip(&vb).all(|(p, q)| p == q || (p.is_nan() && q.is_nan()))
            }
            "T" => {
                let (va, vb) = (parse_vals(fx[4]), parse_vals(fy[4]));
                va.len() == vb.len() && va.iter().zip(&vb).all(|(p, q)| p == q || (p.is_nan() && q.is_nan()) || ((*p as f64) - (*q as f64)).abs() <= 2.0 * slack + f64::MIN_POSITIVE)
            }
            "D" => fx[4] == fy[4] || margin <= slack,
            _ => false,
        };
        if !ok && bad.len() < 20 {
            bad.push(format!("{} [class {class}, slack {:e}]: {la}: {} | {lb}: {}", fx[0], slack, fx[4], fy[4]));
        }
    }
    (n, bad)
}

fn main() {
    let argv: Vec<String> = std::env::args().collect();
    if argv.len() >= 6 && argv[1] == "--compare" {
        let (n, bad) = compare(&argv[2], &argv[3], &argv[4], &argv[5]);
        println!("compared {n} records {} vs {}: {} differences", argv[4], argv[5], bad.len());
        for b in &bad {
            println!("DIFF {b}");
        }
        std::process::exit(if bad.is_empty() { 0 } else { 1 });
    }
    let mut rep = Report::new("C07", "exploration");
    silence_panics();
    rep.rule("cases = (operation of Vec3A/Vec4/Quat/Mat2/Mat3A/Mat4/Affine2/Affine3A, finite input tuple from the C01-C04 style lattices) and programs (all sequences of length 2 (3 thorough) over an 18-operation lane-wise alphabet x 6 seeds; all sequences of length 6 (8 thorough) over 3-operation sub-alphabets of 9 mixed operations); every build writes the raw output bits; the driver compares the streams byte-for-byte inside {sse2, fma, native} and, with the per-record class and analytic slack (computed by the harness in f64 from the inputs, identical in all builds), pairwise between {sse2, scalar, coresimd}: lane-wise results IEEE-equal, re-associated reductions within 2*slack, discrete outcomes equal unless their margin <= slack, Debug/Display strings identical");
    let mut out = Out { bits: String::new(), xb: String::new(), n: 0 };
    let th = rep.thorough();
    enumerate(&mut out, th);
    for (ext, data) in [("stream", &out.bits), ("xb", &out.xb)] {
        let path = format!("{}/work/C07.{}.{}.{}", VERIF_DIR, rep.args.cfg, rep.args.tier, ext);
        let mut f = std::fs::File::create(&path).expect("stream file");
        f.write_all(data.as_bytes()).unwrap();
    }
    rep.evals = out.n;
    rep.nontriv = out.n;
    rep.spaces.push(json!({"space": "operation/input records + programs written to the streams", "records": out.n, "exhaustive": true}));
    rep.sample(json!({"record": "Quat::mul#17 class T slack=8*eps*sum|q_i|*max|p_j|", "compared": "sse2 vs scalar vs coresimd within 2*slack; sse2 vs fma vs native bit-for-bit"}));
    rep.sample(json!({"program": "v=normalize(v+1); q=q*from_axis_angle(v); m=inverse(m); ... (length 8 over a 3-operation sub-alphabet)", "compared": "bit-for-bit between sse2, +fma,+avx2 and target-cpu=native"}));
    std::process::exit(rep.finish());
}
