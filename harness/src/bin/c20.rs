//! C20 — glam outputs satisfy glam preconditions; assertions never change results.
//! Engine E2 (stateright): the state is a typed pool of real glam values (unit vectors, unit
//! quaternions, rotation / rigid / scale-carrying matrices, f64 counterparts); every action applies a
//! precondition-carrying operation to pool slots. Built with and without `glam-assert`: no transition
//! may panic, the post-condition predicates must hold in every state, and the multiset of produced
//! values (hash stream) must be bit-identical between the two builds (E3, compared by the driver).
#![allow(clippy::all)]
use glam::*;
use harness::mc::run_bfs;
use harness::rep::*;
use harness::{catch, hmix};
use serde_json::json;
use stateright::{Model, Property};
use std::io::Write;
use std::sync::atomic::{AtomicU64, Ordering};

#[derive(Clone, Copy, Debug, PartialEq)]
struct Pool {
    u: Vec3,
    w: Vec3,
    ua: Vec3A,
    u2: Vec2,
    q: Quat,
    p: Quat,
    m3: Mat3,
    m4: Mat4,
    a3: Affine3A,
    ms: Mat4,
    du: DVec3,
    dq: DQuat,
    dm: DMat4,
}
const NB: usize = 61;
type Bits = [u64; NB];
impl Pool {
    /// lossless image of the pool (the model-checker state); `from_bits` is its inverse
    fn bits(&self) -> Bits {
        let mut f: Vec<f32> = vec![];
        f.extend_from_slice(&self.u.to_array());
        f.extend_from_slice(&self.w.to_array());
        f.extend_from_slice(&self.ua.to_array());
        f.extend_from_slice(&self.u2.to_array());
        f.extend_from_slice(&self.q.to_array());
        f.extend_from_slice(&self.p.to_array());
        f.extend_from_slice(&self.m3.to_cols_array());
        f.extend_from_slice(&self.m4.to_cols_array());
        f.extend_from_slice(&self.a3.to_cols_array());
        f.extend_from_slice(&self.ms.to_cols_array()); // 3+3+3+2+4+4+9+16+12+16 = 72 f32 = 36 u64
        let mut b = [0u64; NB];
        for (k, pair) in f.chunks(2).enumerate() {
            b[k] = pair[0].to_bits() as u64 | (pair[1].to_bits() as u64) << 32;
        }
        let mut k = 36;
        for x in self.du.to_array().iter().chain(self.dq.to_array().iter()).chain(self.dm.to_cols_array().iter()) {
            b[k] = x.to_bits();
            k += 1;
        } // 3 + 4 + 16 = 23 -> 59
        b
    }
    fn from_bits(b: &[u64]) -> Pool {
        let mut f = Vec::with_capacity(72);
        for k in 0..36 {
            f.push(f32::from_bits(b[k] as u32));
            f.push(f32::from_bits((b[k] >> 32) as u32));
        }
        let d: Vec<f64> = b[36..59].iter().map(|x| f64::from_bits(*x)).collect();
        Pool {
            u: Vec3::from_slice(&f[0..3]),
            w: Vec3::from_slice(&f[3..6]),
            ua: Vec3A::from_slice(&f[6..9]),
            u2: Vec2::from_slice(&f[9..11]),
            q: Quat::from_slice(&f[11..15]),
            p: Quat::from_slice(&f[15..19]),
            m3: Mat3::from_cols_slice(&f[19..28]),
            m4: Mat4::from_cols_slice(&f[28..44]),
            a3: Affine3A::from_cols_slice(&f[44..56]),
            ms: Mat4::from_cols_slice(&f[56..72]),
            du: DVec3::from_slice(&d[0..3]),
            dq: DQuat::from_slice(&d[3..7]),
            dm: DMat4::from_cols_slice(&d[7..23]),
        }
    }
    fn hash(&self) -> u64 {
        self.bits().iter().fold(0x1234u64, |h, x| hmix(h, *x))
    }
    /// post-conditions: what the next precondition-carrying operation will demand
    fn check(&self) -> Option<(String, String)> {
        let bad = |slot: &str, what: String| Some((slot.to_string(), what));
        if !self.u.is_normalized() { return bad("unit Vec3", format!("u={:?} length^2={}", self.u, self.u.length_squared())); }
        if !self.w.is_normalized() { return bad("unit Vec3", format!("w={:?}", self.w)); }
        if !self.ua.is_normalized() { return bad("unit Vec3A", format!("ua={:?}", self.ua)); }
        if !self.u2.is_normalized() { return bad("unit Vec2", format!("u2={:?}", self.u2)); }
        if !self.q.is_normalized() { return bad("unit Quat", format!("q={:?} length^2={}", self.q, self.q.length_squared())); }
        if !self.p.is_normalized() { return bad("unit Quat", format!("p={:?}", self.p)); }
        if !self.dq.is_normalized() { return bad("unit DQuat", format!("dq={:?}", self.dq)); }
        if !self.du.is_normalized() { return bad("unit DVec3", format!("du={:?}", self.du)); }
        if !(self.m3.x_axis.is_normalized() && self.m3.y_axis.is_normalized() && self.m3.z_axis.is_normalized()) { return bad("rotation Mat3", format!("m3={:?}", self.m3)); }
        for (name, m) in [("rigid Mat4", self.m4), ("scale-carrying Mat4", self.ms), ("Mat4::from(rigid Affine3A)", Mat4::from(self.a3))] {
            if !m.row(3).abs_diff_eq(Vec4::W, 1e-6) { return bad(name, format!("last row {:?}", m.row(3))); }
            if !m.is_finite() { return bad(name, format!("not finite {:?}", m)); }
        }
        if !(self.m4.x_axis.truncate().is_normalized() && self.m4.y_axis.truncate().is_normalized() && self.m4.z_axis.truncate().is_normalized()) { return bad("rigid Mat4", format!("axes not normalised {:?}", self.m4)); }
        if !(self.a3.matrix3.x_axis.is_normalized() && self.a3.matrix3.y_axis.is_normalized() && self.a3.matrix3.z_axis.is_normalized()) { return bad("rigid Affine3A", format!("axes not normalised {:?}", self.a3)); }
        if !self.dm.row(3).abs_diff_eq(DVec4::W, 1e-6) { return bad("rigid DMat4", format!("last row {:?}", self.dm.row(3))); }
        if self.ms.determinant() == 0.0 { return bad("scale-carrying Mat4", "determinant 0".into()); }
        None
    }
}

type Op = (&'static str, fn(&Pool) -> Pool);
const ANG: [f32; 4] = [0.3, -1.7, 3.1, 1e-3];
const TR: Vec3 = Vec3::new(1.5, -2.0, 0.25);

/// a unit "up" hint that is neither parallel nor perpendicular to the unit direction `d`
fn skew_up(d: Vec3) -> Vec3 {
    (d.any_orthonormal_vector() + d * 0.4).normalize()
}

fn ops() -> Vec<Op> {
    macro_rules! op {
        ($name:literal, |$p:ident| $body:block) => {
            ($name, (|$p: &Pool| -> Pool { let mut $p = *$p; $body; $p }) as fn(&Pool) -> Pool)
        };
    }
    vec![
        // ---- unit vectors
        op!("u = q * u", |s| { s.u = s.q * s.u }),
        op!("ua = q * ua", |s| { s.ua = s.q * s.ua }),
        op!("w = u.any_orthonormal_vector()", |s| { s.w = s.u.any_orthonormal_vector() }),
        op!("(u, w) = w.any_orthonormal_pair()", |s| { let (a, b) = s.w.any_orthonormal_pair(); s.u = a; s.w = b }),
        op!("u = u.cross(u.any_orthonormal_vector()).normalize()", |s| { s.u = s.u.cross(s.u.any_orthonormal_vector()).normalize() }),
        op!("u = (u + w*0.5).normalize()", |s| { s.u = (s.u + s.w * 0.5).normalize() }),
        op!("w = (w*1e-3).try_normalize()", |s| { s.w = (s.w * 1e-3).try_normalize().unwrap() }),
        op!("u = m3 * u", |s| { s.u = s.m3 * s.u }),
        op!("u = m4.transform_vector3(u)", |s| { s.u = s.m4.transform_vector3(s.u) }),
        op!("w = a3.transform_vector3(w)", |s| { s.w = s.a3.transform_vector3(s.w) }),
        op!("ua = a3.transform_vector3a(ua)", |s| { s.ua = s.a3.transform_vector3a(s.ua) }),
        op!("u = u.reflect(w)", |s| { s.u = s.u.reflect(s.w) }),
        op!("u = u.slerp(w, 0.3).normalize()", |s| { s.u = s.u.slerp(s.w, 0.3).normalize() }),
        op!("u = u.rotate_towards(w, 0.4)", |s| { s.u = s.u.rotate_towards(s.w, 0.4) }),
        op!("ua = Vec3A::from(u); u = Vec3::from(ua_old)", |s| { let t = s.ua; s.ua = Vec3A::from(s.u); s.u = Vec3::from(t) }),
        op!("u2 = Vec2::from_angle(1.1).rotate(u2)", |s| { s.u2 = Vec2::from_angle(1.1).rotate(s.u2) }),
        op!("u2 = u2.rotate_towards(Vec2::Y, 0.7)", |s| { s.u2 = s.u2.rotate_towards(Vec2::Y, 0.7) }),
        op!("sinks: refract, project/reject_normalized, clamp_length", |s| {
            let _ = s.u.refract(s.w, 0.8);
            let _ = s.u.project_onto_normalized(s.w);
            let _ = Vec3::new(1.0, 2.0, 3.0).reject_from_normalized(s.u);
            let _ = s.ua.refract(s.ua, 1.3);
            let _ = (s.u * 3.0).clamp_length(0.5, 2.0);
            let _ = s.u2.reflect(s.u2);
        }),
        // ---- quaternions
        op!("q = from_axis_angle(u, 0.3)", |s| { s.q = Quat::from_axis_angle(s.u, ANG[0]) }),
        op!("p = from_axis_angle(w, -1.7)", |s| { s.p = Quat::from_axis_angle(s.w, ANG[1]) }),
        op!("q = from_axis_angle(u, 3.1)", |s| { s.q = Quat::from_axis_angle(s.u, ANG[2]) }),
        op!("p = from_scaled_axis(w * 1e-3)", |s| { s.p = Quat::from_scaled_axis(s.w * ANG[3]) }),
        op!("q = q * p", |s| { s.q = s.q * s.p }),
        op!("p = p * q", |s| { s.p = s.p * s.q }),
        op!("q = q * q", |s| { s.q = s.q * s.q }),
        op!("q = q.inverse()", |s| { s.q = s.q.inverse() }),
        op!("q = q.lerp(p, 0.4)", |s| { s.q = s.q.lerp(s.p, 0.4) }),
        op!("q = q.slerp(p, 0.7)", |s| { s.q = s.q.slerp(s.p, 0.7) }),
        op!("p = p.rotate_towards(q, 0.5)", |s| { s.p = s.p.rotate_towards(s.q, 0.5) }),
        op!("q = from_rotation_arc(u, w)", |s| { s.q = Quat::from_rotation_arc(s.u, s.w) }),
        op!("p = from_rotation_arc_colinear(w, u)", |s| { s.p = Quat::from_rotation_arc_colinear(s.w, s.u) }),
        op!("q = from_mat3(m3)", |s| { s.q = Quat::from_mat3(&s.m3) }),
        op!("p = from_mat4(m4)", |s| { s.p = Quat::from_mat4(&s.m4) }),
        op!("q = from_affine3(a3)", |s| { s.q = Quat::from_affine3(&s.a3) }),
        op!("q = from_euler(YXZ, q.to_euler(YXZ))", |s| { let (a, b, c) = s.q.to_euler(EulerRot::YXZ); s.q = Quat::from_euler(EulerRot::YXZ, a, b, c) }),
        op!("p = from_euler(ZXZEx, p.to_euler(ZXZEx))", |s| { let (a, b, c) = s.p.to_euler(EulerRot::ZXZEx); s.p = Quat::from_euler(EulerRot::ZXZEx, a, b, c) }),
        op!("q = look_to_rh(u, w-orthogonalised)", |s| { let up = (s.w - s.u * s.u.dot(s.w) + s.u.any_orthonormal_vector() * 1e-3).normalize(); s.q = Quat::look_to_rh(s.u, up) }),
        op!("q = from_axis_angle(q.to_axis_angle())", |s| { let (ax, an) = s.q.to_axis_angle(); s.q = Quat::from_axis_angle(ax, an) }),
        // ---- matrices / affine
        op!("m3 = Mat3::from_quat(q)", |s| { s.m3 = Mat3::from_quat(s.q) }),
        op!("m3 = Mat3::from_axis_angle(w, 0.3)", |s| { s.m3 = Mat3::from_axis_angle(s.w, ANG[0]) }),
        op!("m3 = m3 * Mat3::from_quat(p)", |s| { s.m3 = s.m3 * Mat3::from_quat(s.p) }),
        op!("m3 = m3.transpose()", |s| { s.m3 = s.m3.transpose() }),
        op!("m3 = Mat3::from_euler(XYZ, m3.to_euler(XYZ))", |s| { let (a, b, c) = s.m3.to_euler(EulerRot::XYZ); s.m3 = Mat3::from_euler(EulerRot::XYZ, a, b, c) }),
        op!("m4 = Mat4::from_rotation_translation(q, t)", |s| { s.m4 = Mat4::from_rotation_translation(s.q, TR) }),
        op!("m4 = Mat4::look_to_rh(t, u, up)", |s| { s.m4 = Mat4::look_to_rh(TR, s.u, skew_up(s.u)) }),
        op!("m3 = Mat3::look_to_lh(u, up); q = from_mat3(m3)", |s| { s.m3 = Mat3::look_to_lh(s.u, skew_up(s.u)); s.q = Quat::from_mat3(&s.m3) }),
        op!("p = from_mat3a(Mat3A::look_at_rh(t, t + w, up))", |s| { let m = Mat3A::look_at_rh(TR, TR + s.w * 3.0, skew_up(s.w)); s.p = Quat::from_mat3a(&m); s.m3 = Mat3::from(m) }),
        op!("m4 = Mat4::look_at_lh(t, t + w, up)", |s| { s.m4 = Mat4::look_at_lh(TR, TR + s.w * 2.0, skew_up(s.w)) }),
        op!("m4 = m4 * Mat4::from_quat(p)", |s| { s.m4 = s.m4 * Mat4::from_quat(s.p) }),
        op!("m4 = m4.inverse()", |s| { s.m4 = s.m4.inverse() }),
        op!("m4 = Mat4::from(a3)", |s| { s.m4 = Mat4::from(s.a3) }),
        op!("a3 = Affine3A::from_rotation_translation(p, t)", |s| { s.a3 = Affine3A::from_rotation_translation(s.p, TR) }),
        op!("a3 = Affine3A::look_to_lh(t, w, up)", |s| { s.a3 = Affine3A::look_to_lh(TR, s.w, skew_up(s.w)) }),
        op!("a3 = a3 * Affine3A::from_quat(q)", |s| { s.a3 = s.a3 * Affine3A::from_quat(s.q) }),
        op!("a3 = a3.inverse()", |s| { s.a3 = s.a3.inverse() }),
        op!("a3 = Affine3A::from_mat4(m4)", |s| { s.a3 = Affine3A::from_mat4(s.m4) }),
        op!("ms = Mat4::from_scale_rotation_translation(s, q, t)", |s| { s.ms = Mat4::from_scale_rotation_translation(Vec3::new(2.0, 0.5, -1.5), s.q, TR) }),
        op!("ms = from_srt(ms.to_srt())", |s| { let (sc, r, t) = s.ms.to_scale_rotation_translation(); s.ms = Mat4::from_scale_rotation_translation(sc, r, t); s.p = r }),
        op!("sinks: transform_point3, to_scale_rotation_translation, to_euler, project_point3", |s| {
            let _ = s.m4.transform_point3(TR);
            let _ = s.ms.transform_point3(TR);
            let _ = s.ms.transform_vector3(s.u);
            let _ = s.m4.transform_point3a(s.ua);
            let _ = s.m4.to_scale_rotation_translation();
            let _ = s.a3.to_scale_rotation_translation();
            let _ = s.m4.to_euler(EulerRot::ZYX);
            let _ = s.m3.to_euler(EulerRot::XZY);
            let _ = s.m3.inverse();
            let _ = Mat4::from_mat3(s.m3).transform_vector3a(s.ua);
        }),
        // ---- f64 counterparts
        op!("dq = DQuat::from_axis_angle(du, 0.3) * dq", |s| { s.dq = DQuat::from_axis_angle(s.du, 0.3) * s.dq }),
        op!("du = dq * du", |s| { s.du = s.dq * s.du }),
        op!("dq = dq.slerp(q.as_dquat().normalize(), 0.25)", |s| { s.dq = s.dq.slerp(s.q.as_dquat().normalize(), 0.25) }),
        op!("dm = DMat4::from_rotation_translation(dq, t); dq = from_mat4(dm)", |s| { s.dm = DMat4::from_rotation_translation(s.dq, DVec3::new(1.0, 2.0, 3.0)); s.dq = DQuat::from_mat4(&s.dm); let _ = s.dm.transform_point3(s.du); }),
        op!("du = du.any_orthonormal_vector(); dq = from_rotation_arc", |s| { let o = s.du.any_orthonormal_vector(); s.dq = DQuat::from_rotation_arc(s.du, o); s.du = o }),
    ]
}

fn seeds() -> Vec<Pool> {
    let mut v = vec![];
    let dirs: [[f32; 3]; 8] = [[1.0, 0.0, 0.0], [1.0, 2.0, -2.0], [-3.0, 0.5, 1.0], [0.0, 0.0, -1.0], [1e-3, 1.0, -1e-3], [-2.0, -2.0, -1.0], [0.3, -0.7, 0.2], [5.0, 1e-2, -7.0]];
    for (i, d) in dirs.iter().enumerate() {
        let u = Vec3::from_array(*d).normalize();
        let w = u.any_orthonormal_vector();
        let q = Quat::from_axis_angle(w, 0.4 + i as f32 * 0.77);
        let p = Quat::from_axis_angle(u, -1.0 + i as f32 * 0.31);
        v.push(Pool {
            u,
            w,
            ua: Vec3A::from(Vec3::from_array(dirs[(i + 3) % 8]).normalize()),
            u2: Vec2::new(d[0], d[1] + 0.25).normalize(),
            q,
            p,
            m3: Mat3::from_quat(p),
            m4: Mat4::from_rotation_translation(q, TR),
            a3: Affine3A::from_rotation_translation(p, -TR),
            ms: Mat4::from_scale_rotation_translation(Vec3::new(1.5, 2.0, 0.25), q, TR),
            du: DVec3::new(d[0] as f64, d[1] as f64, d[2] as f64).normalize(),
            dq: DQuat::from_axis_angle(DVec3::new(d[1] as f64 + 0.5, d[2] as f64, d[0] as f64).normalize(), 0.9 + i as f64 * 0.4),
            dm: DMat4::IDENTITY,
        });
    }
    v
}

static SUMS: [AtomicU64; 128] = [const { AtomicU64::new(0) }; 128];
static COUNTS: [AtomicU64; 128] = [const { AtomicU64::new(0) }; 128];

#[derive(Clone, Debug, PartialEq, Eq, Hash)]
struct CState {
    bits: Vec<u64>,
    seed: u8,
    depth: u8,
    /// 0 = fine; k+1 = the transition with op k panicked
    panicked: u16,
}
struct Chains {
    ops: Vec<Op>,
    seeds: Vec<Pool>,
    max_depth: u8,
}
impl Chains {
    fn pool_of(&self, s: &CState) -> Pool {
        Pool::from_bits(&s.bits)
    }
    fn remember(&self, p: &Pool) -> Vec<u64> {
        p.bits().to_vec()
    }
}
impl Model for Chains {
    type State = CState;
    type Action = u16;
    fn init_states(&self) -> Vec<CState> {
        self.seeds.iter().enumerate().map(|(i, p)| CState { bits: self.remember(p), seed: i as u8, depth: 0, panicked: 0 }).collect()
    }
    fn actions(&self, s: &CState, a: &mut Vec<u16>) {
        if s.depth < self.max_depth && s.panicked == 0 {
            a.extend(0..self.ops.len() as u16);
        }
    }
    fn next_state(&self, s: &CState, a: u16) -> Option<CState> {
        let p = self.pool_of(s);
        let f = self.ops[a as usize].1;
        match catch(|| f(&p)) {
            Ok(n) => {
                let h = n.hash();
                SUMS[a as usize].fetch_add(h, Ordering::Relaxed);
                COUNTS[a as usize].fetch_add(1, Ordering::Relaxed);
                Some(CState { bits: self.remember(&n), seed: s.seed, depth: s.depth + 1, panicked: 0 })
            }
            Err(_) => Some(CState { bits: s.bits.clone(), seed: s.seed, depth: s.depth + 1, panicked: a + 1 }),
        }
    }
    fn properties(&self) -> Vec<Property<Self>> {
        vec![
            Property::always("no operation on valid inputs panics", |_: &Chains, s: &CState| s.panicked == 0),
            Property::always("outputs satisfy the preconditions of the next operation", |m: &Chains, s: &CState| s.panicked != 0 || m.pool_of(s).check().is_none()),
        ]
    }
    fn format_action(&self, a: &u16) -> String {
        self.ops[*a as usize].0.to_string()
    }
}

fn long_chains(rep: &mut Report, ops: &[Op], seeds: &[Pool], stream: &mut Vec<String>) {
    // every sequence of length 12 over each 2-operation sub-alphabet of the closed operations
    let closed: Vec<usize> = ops.iter().enumerate().filter(|(_, o)| !o.0.starts_with("sinks")).map(|(i, _)| i).collect();
    let nsel = if rep.thorough() { closed.len() } else { 14 };
    let mut sel: Vec<usize> = closed.iter().step_by((closed.len() / nsel).max(1)).copied().collect();
    // always part of the alphabet: the self-multiplication and two consumers of its result (the known
    // finding of known_findings.txt is therefore exercised, and shown, in every tier)
    for name in ["q = q * q", "m3 = Mat3::from_quat(q)", "q = q.inverse()"] {
        let k = ops.iter().position(|o| o.0 == name).expect("op");
        if !sel.contains(&k) {
            sel.push(k);
        }
    }
    sel.sort();
    let mut pairs = vec![];
    for i in 0..sel.len() {
        for j in i + 1..sel.len() {
            pairs.push((sel[i], sel[j]));
        }
    }
    let np = pairs.len() as u64;
    let ns = seeds.len() as u64;
    let total = AtomicU64::new(0);
    rep.sweep(&format!("long chains/{ns} seeds x {np} operation pairs x 2^12 sequences of length 12"), ns * np * 4096, |idx, acc| {
        let d = harness::lat::digits(idx, [4096, np, ns]);
        let (a, b) = pairs[d[1]];
        let mut p = seeds[d[2]];
        let mut h = 0u64;
        // number of self-multiplications so far: each `q = q * q` doubles the deviation of |q| from 1,
        // so k of them amplify one rounding error 2^k-fold (a chain of 12 operations that stands for a
        // product of 2^12 factors). Failures whose history contains >= 8 squarings are tagged with
        // their own site (see known_findings.txt); every other failure keeps the plain site.
        let mut squarings = 0u32;
        for step in 0..12 {
            let k = if d[0] >> step & 1 == 0 { a } else { b };
            if ops[k].0 == "q = q * q" {
                squarings += 1;
            }
            let tag = if squarings >= 8 { format!("chain::repeated-squaring(q=q*q x{squarings})") } else { "chain".to_string() };
            match catch(|| (ops[k].1)(&p)) {
                Ok(n) => {
                    p = n;
                    h = hmix(h, p.hash());
                    if let Some((slot, what)) = p.check() {
                        acc.fail(&format!("{tag}::{}", slot), format!("seed {} ops ({}, {}) pattern {:012b} step {}: {}", d[2], ops[a].0, ops[b].0, d[0], step, what));
                        break;
                    }
                }
                Err(e) => {
                    acc.fail(&format!("{tag}::panic in `{}`", ops[k].0), format!("seed {} ops ({}, {}) pattern {:012b} step {}: {}", d[2], ops[a].0, ops[b].0, d[0], step, e));
                    break;
                }
            }
        }
        acc.eval(true, h);
        total.fetch_add(h, Ordering::Relaxed);
    });
    stream.push(format!("long-chains\t{}", total.load(Ordering::Relaxed)));
}

/// producers at the edges of their domains: what they return must still be valid input to glam
/// (unit results pass is_normalized, and the consumer that asserts it does not panic)
fn boundary_producers(rep: &mut Report) {
    macro_rules! edge {
        ($S:ident, $Q:ident, $V3:ident, $tiny:expr) => {{
            let tn = stringify!($Q);
            // vector-part magnitudes from the smallest subnormal up to 0.5, three per decade
            let mut mags: Vec<$S> = vec![];
            let mut m: f64 = $tiny;
            while m < 0.6 { for k in [1.0, 2.5, 6.0] { mags.push((m * k) as $S); } m *= 10.0; }
            let dirs: [[$S; 3]; 7] = [[1.0, 0.0, 0.0], [0.0, 1.0, 0.0], [0.0, 0.0, -1.0], [0.6, 0.0, 0.8], [0.0, -0.6, 0.8], [0.57735026, 0.57735026, 0.57735026], [-0.2, 0.3, 0.93273790530888]];
            let nm = mags.len() as u64;
            let mr = &mags;
            rep.sweep(&format!("boundary producers/{tn} near the identity/{nm} vector-part magnitudes x 7 directions x 2 signs of w"), nm * 14, |idx, acc| {
                let (e, d, sw) = (mr[(idx % nm) as usize], dirs[((idx / nm) % 7) as usize], if idx / nm / 7 == 0 { 1.0 as $S } else { -1.0 });
                let w = (1.0 - (e as f64) * (e as f64)).sqrt() as $S * sw;
                let q = <$Q>::from_xyzw(d[0] * e, d[1] * e, d[2] * e, w);
                if !q.is_normalized() { return; }
                acc.eval(true, (e as f64).to_bits() ^ idx);
                let ctx = || format!("q={:?}", q);
                let r = catch(|| {
                    let (axis, angle) = q.to_axis_angle();
                    (axis, angle, <$Q>::from_axis_angle(axis, angle))
                });
                match r {
                    Err(p) => acc.fail(&format!("edge::{tn}::to_axis_angle -> from_axis_angle"), format!("{} panicked: {p}", ctx())),
                    Ok((axis, angle, back)) => {
                        if !axis.is_normalized() { acc.fail(&format!("edge::{tn}::to_axis_angle(axis is unit)"), format!("{} axis={:?} angle={:e} |axis|^2={:e}", ctx(), axis, angle, axis.length_squared())); }
                        if !back.is_normalized() { acc.fail(&format!("edge::{tn}::from_axis_angle(to_axis_angle)"), format!("{} axis={:?} angle={:e} rebuilt={:?}", ctx(), axis, angle, back)); }
                    }
                }
                match catch(|| <$Q>::from_scaled_axis(q.to_scaled_axis())) {
                    Err(p) => acc.fail(&format!("edge::{tn}::to_scaled_axis -> from_scaled_axis"), format!("{} panicked: {p}", ctx())),
                    Ok(b) => if !b.is_normalized() { acc.fail(&format!("edge::{tn}::from_scaled_axis(to_scaled_axis)"), format!("{} rebuilt={:?}", ctx(), b)); },
                }
                // interpolation and steering between the identity and q, products and inverse
                for (site, r) in [
                    ("slerp", catch(|| <$Q>::IDENTITY.slerp(q, 0.3))), ("lerp", catch(|| <$Q>::IDENTITY.lerp(q, 0.3))), ("rotate_towards", catch(|| <$Q>::IDENTITY.rotate_towards(q, (e * 0.5) as $S))),
                    ("mul", catch(|| q * q)), ("inverse", catch(|| q.inverse())),
                ] {
                    match r {
                        Err(p) => acc.fail(&format!("edge::{tn}::{site}"), format!("{} panicked: {p}", ctx())),
                        Ok(b) => if !b.is_normalized() { acc.fail(&format!("edge::{tn}::{site}(unit)"), format!("{} result={:?} |r|^2={:e}", ctx(), b, b.length_squared())); },
                    }
                }
                // from_rotation_arc between a unit vector and itself rotated by q (nearly parallel pair)
                let u = <$V3>::new(0.36, 0.48, -0.8);
                match catch(|| { let v = (q * u).normalize(); (<$Q>::from_rotation_arc(u, v), <$Q>::from_rotation_arc(u, -v), <$Q>::from_rotation_arc_colinear(u, v)) }) {
                    Err(p) => acc.fail(&format!("edge::{tn}::from_rotation_arc(nearly parallel)"), format!("{} panicked: {p}", ctx())),
                    Ok((a, b, c)) => for (k, r) in [a, b, c].iter().enumerate() { if !r.is_normalized() { acc.fail(&format!("edge::{tn}::from_rotation_arc(unit)"), format!("{} form {k} result={:?}", ctx(), r)); } },
                }
            });
            // vectors of every magnitude: normalisation products are unit (or the documented fallback)
            let mut vm: Vec<$S> = vec![];
            let mut m: f64 = $tiny;
            while m < 1e38 && (m as $S).is_finite() { vm.push(m as $S); vm.push((m * 3.0) as $S); m *= 100.0; }
            let nv = vm.len() as u64;
            let vr = &vm;
            rep.sweep(&format!("boundary producers/{} of every magnitude/{nv} magnitudes x 7 directions", stringify!($V3)), nv * 7, |idx, acc| {
                let (e, d) = (vr[(idx % nv) as usize], dirs[(idx / nv) as usize]);
                let v = <$V3>::new(d[0] * e, d[1] * e, d[2] * e);
                acc.eval(true, idx);
                let ctx = || format!("v={:?}", v);
                for (site, r) in [("try_normalize", catch(|| v.try_normalize())), ("normalize_or_zero", catch(|| { let n = v.normalize_or_zero(); if n == <$V3>::ZERO { None } else { Some(n) } })), ("normalize_or(X)", catch(|| Some(v.normalize_or(<$V3>::X))))] {
                    match r {
                        Err(p) => acc.fail(&format!("edge::{}::{site}", stringify!($V3)), format!("{} panicked: {p}", ctx())),
                        Ok(Some(n)) => {
                            if !n.is_normalized() { acc.fail(&format!("edge::{}::{site}(unit)", stringify!($V3)), format!("{} result={:?} |n|^2={:e}", ctx(), n, n.length_squared())); }
                            // and the unit result feeds the consumers that assert it
                            if let Err(p) = catch(|| (n.any_orthonormal_pair(), n.any_orthonormal_vector(), <$Q>::from_axis_angle(n, 0.7), <$V3>::Y.reflect(n), <$V3>::Y.project_onto_normalized(n))) {
                                acc.fail(&format!("edge::{}::{site} -> consumers", stringify!($V3)), format!("{} n={:?} panicked: {p}", ctx(), n));
                            }
                        }
                        Ok(None) => {}
                    }
                }
            });
        }};
    }
    edge!(f32, Quat, Vec3, 1e-45);
    edge!(f64, DQuat, DVec3, 5e-324);
    // q and -q are the same rotation: interpolating between exactly opposite unit quaternions stays unit
    macro_rules! antipodal {
        ($S:ident, $Q:ident, $V3:ident) => {{
            let tn = stringify!($Q);
            rep.sweep(&format!("boundary producers/{tn} exactly opposite pairs/7 axes x 9 angles x 5 parameters"), 7 * 9 * 5, |idx, acc| {
                let dirs: [[$S; 3]; 7] = [[1.0, 0.0, 0.0], [0.0, 1.0, 0.0], [0.0, 0.0, -1.0], [0.6, 0.0, 0.8], [0.0, -0.6, 0.8], [0.57735026, 0.57735026, 0.57735026], [-0.2, 0.3, 0.93273790530888]];
                let d = dirs[(idx % 7) as usize];
                let ang = [0.0 as $S, 1e-3, 0.5, 1.0, 1.5707964, 2.0, 3.0, 3.1415927, 4.5][((idx / 7) % 9) as usize];
                let s = [0.0 as $S, 0.25, 0.5, 0.75, 1.0][(idx / 63) as usize];
                let q = <$Q>::from_axis_angle(<$V3>::new(d[0], d[1], d[2]).normalize(), ang);
                acc.eval(true, idx);
                for (site, r) in [("lerp(q, -q)", catch(|| q.lerp(-q, s))), ("slerp(q, -q)", catch(|| q.slerp(-q, s))), ("lerp(-q, q)", catch(|| (-q).lerp(q, s))), ("rotate_towards(q, -q)", catch(|| q.rotate_towards(-q, 0.3))), ("(-q).inverse()", catch(|| (-q).inverse())), ("q * -q^-1", catch(|| q * (-q).inverse()))] {
                    match r {
                        Err(p) => acc.fail(&format!("edge::{tn}::{site}"), format!("q={:?} s={:?} panicked: {p}", q, s)),
                        Ok(b) => if !b.is_normalized() { acc.fail(&format!("edge::{tn}::{site}(unit)"), format!("q={:?} s={:?} result={:?}", q, s, b)); },
                    }
                }
            });
        }};
    }
    antipodal!(f32, Quat, Vec3);
    antipodal!(f64, DQuat, DVec3);
    // quaternions that are unit only within the tolerance glam itself applies (|q|^2 = 1 +- 1.9e-4) are
    // valid inputs: no consumer that asserts is_normalized may reject them, whatever it delegates to
    macro_rules! edge_unit {
        ($S:ident, $Q:ident, $V3:ident, $M3:ident, $M4:ident, $A3:ident) => {{
            let tn = stringify!($Q);
            rep.sweep(&format!("boundary producers/{tn} unit within tolerance/7 axes x 6 angles x 4 scalings"), 7 * 6 * 4, |idx, acc| {
                let dirs: [[$S; 3]; 7] = [[1.0, 0.0, 0.0], [0.0, 1.0, 0.0], [0.0, 0.0, -1.0], [0.6, 0.0, 0.8], [0.0, -0.6, 0.8], [0.57735026, 0.57735026, 0.57735026], [-0.2, 0.3, 0.93273790530888]];
                let d = dirs[(idx % 7) as usize];
                let ang = [0.0 as $S, 0.7, 1.5707964, 2.0, 3.1415927, -2.5][((idx / 7) % 6) as usize];
                let k = [1.9e-4f64, -1.9e-4, 1.0e-4, -5.0e-5][(idx / 42) as usize];
                let q = <$Q>::from_axis_angle(<$V3>::new(d[0], d[1], d[2]).normalize(), ang) * ((1.0 + k).sqrt() as $S);
                if !q.is_normalized() { return; }
                acc.eval(true, idx);
                let v = <$V3>::new(0.5, -1.0, 2.0);
                let calls: Vec<(&str, Result<(), String>)> = vec![
                    ("to_euler(YXZ)", catch(|| { let _ = q.to_euler(EulerRot::YXZ); })), ("to_euler(ZYX)", catch(|| { let _ = q.to_euler(EulerRot::ZYX); })), ("to_euler(XZXEx)", catch(|| { let _ = q.to_euler(EulerRot::XZXEx); })),
                    ("to_axis_angle", catch(|| { let _ = q.to_axis_angle(); })), ("to_scaled_axis", catch(|| { let _ = q.to_scaled_axis(); })), ("inverse", catch(|| { let _ = q.inverse(); })),
                    ("mul_vec3", catch(|| { let _ = q * v; })), ("mul_quat", catch(|| { let _ = q * q; })), ("slerp", catch(|| { let _ = q.slerp(<$Q>::IDENTITY, 0.3); })), ("lerp", catch(|| { let _ = q.lerp(<$Q>::IDENTITY, 0.3); })),
                    ("angle_between", catch(|| { let _ = q.angle_between(<$Q>::IDENTITY); })), ("rotate_towards", catch(|| { let _ = q.rotate_towards(<$Q>::IDENTITY, 0.2); })), ("is_near_identity", catch(|| { let _ = q.is_near_identity(); })),
                    ("Mat3::from_quat", catch(|| { let _ = <$M3>::from_quat(q); })), ("Mat4::from_quat", catch(|| { let _ = <$M4>::from_quat(q); })), ("Affine3::from_quat", catch(|| { let _ = <$A3>::from_quat(q); })),
                    ("Mat4::from_rotation_translation", catch(|| { let _ = <$M4>::from_rotation_translation(q, v); })), ("Mat4::from_scale_rotation_translation", catch(|| { let _ = <$M4>::from_scale_rotation_translation(v, q, v); })),
                    ("Affine3::from_scale_rotation_translation", catch(|| { let _ = <$A3>::from_scale_rotation_translation(v, q, v); })),
                ];
                for (site, r) in calls {
                    if let Err(p) = r { acc.fail(&format!("edge::{tn}::{site}(unit within tolerance)"), format!("q={:?} |q|^2={:e} panicked: {p}", q, q.length_squared())); }
                }
            });
        }};
    }
    edge_unit!(f32, Quat, Vec3, Mat3, Mat4, Affine3A);
    edge_unit!(f64, DQuat, DVec3, DMat3, DMat4, DAffine3);
    // steering between parallel / opposite operands: glam picks its own axis there, and must hand a valid
    // one to its own quaternion constructor; the length of the operand is preserved
    macro_rules! steer_parallel {
        ($(($V:ident, $S:ident)),*) => {$(
            rep.sweep(concat!("boundary producers/", stringify!($V), "::rotate_towards between parallel operands/7 directions x 4 targets x 4 angles x 3 lengths"), 7 * 4 * 4 * 3, |idx, acc| {
                let dirs: [[$S; 3]; 7] = [[1.0, 0.0, 0.0], [0.0, 1.0, 0.0], [0.0, 0.0, -1.0], [0.6, 0.0, 0.8], [0.0, -0.6, 0.8], [0.57735026, 0.57735026, 0.57735026], [-0.2, 0.3, 0.93273790530888]];
                let d = dirs[(idx % 7) as usize];
                let len = [1.0 as $S, 2.5, 1e-3][(idx / 112) as usize];
                let v = <$V>::new(d[0], d[1], d[2]).normalize() * len;
                let t = v * [1.0 as $S, -1.0, 2.0, -0.5][((idx / 7) % 4) as usize];
                let a = [0.3 as $S, -0.3, 4.0, 0.0][((idx / 28) % 4) as usize];
                acc.eval(true, idx);
                match catch(|| v.rotate_towards(t, a)) {
                    Err(p) => acc.fail(concat!("edge::", stringify!($V), "::rotate_towards(parallel operands)"), format!("v={:?} target={:?} angle={:?} panicked: {p}", v, t, a)),
                    Ok(r) => if !((r.length() - len).abs() <= 1e-3 * len) { acc.fail(concat!("edge::", stringify!($V), "::rotate_towards(parallel operands, length)"), format!("v={:?} target={:?} angle={:?} result={:?} |result|={:e}", v, t, a, r, r.length())); },
                }
            });
        )*};
    }
    steer_parallel!((Vec3, f32), (Vec3A, f32), (DVec3, f64));
    // a Vec3A whose unused fourth lane holds an infinity or a NaN is a perfectly valid unit vector:
    // every producer / consumer behaves as for the same three lanes with a clean register
    rep.sweep("boundary producers/Vec3A with a non-finite hidden lane/7 directions x 5 hidden values", 35, |idx, acc| {
        let dirs: [[f32; 3]; 7] = [[1.0, 0.0, 0.0], [0.0, 1.0, 0.0], [0.0, 0.0, -1.0], [0.6, 0.0, 0.8], [0.0, -0.6, 0.8], [0.57735026, 0.57735026, 0.57735026], [-0.2, 0.3, 0.9327379]];
        let d = dirs[(idx % 7) as usize];
        let h = [f32::INFINITY, f32::NEG_INFINITY, f32::NAN, 3e38, -1e-45][(idx / 7) as usize];
        let clean = Vec3A::new(d[0], d[1], d[2]) * 2.5;
        let dirty = Vec3A::from_vec4(Vec4::new(d[0], d[1], d[2], h)) * 2.5;
        acc.eval(true, idx);
        let q = Quat::from_axis_angle(Vec3::new(0.6, 0.0, 0.8), 0.7);
        let run = |v: Vec3A| catch(move || {
            let n = v.normalize();
            let t = v.try_normalize().unwrap_or(Vec3A::ZERO);
            let (a, b) = n.any_orthonormal_pair();
            (v.is_finite(), n.to_array(), t.to_array(), v.normalize_or_zero().to_array(), a.to_array(), b.to_array(), (q * n).to_array(), Vec3A::Y.reflect(n).to_array(), Vec3A::Y.project_onto_normalized(n).to_array(), n.is_normalized(), Quat::from_axis_angle(Vec3::from(n), 0.3).to_array(), v.clamp_length(0.5, 1.5).to_array())
        });
        match (run(clean), run(dirty)) {
            (Ok(c), Ok(dv)) => if format!("{:?}", c) != format!("{:?}", dv) { acc.fail("edge::Vec3A(non-finite hidden lane)", format!("v={:?} hidden={:?}: {:?} differs from the clean register's {:?}", clean, h, dv, c)); },
            (Ok(_), Err(p)) => acc.fail("edge::Vec3A(non-finite hidden lane)", format!("v={:?} hidden={:?} panicked: {p}", clean, h)),
            (Err(p), _) => acc.fail("edge::Vec3A(clean register)", format!("v={:?} panicked: {p}", clean)),
        }
    });
}

fn negative_table(rep: &mut Report) {
    // documented violations must panic with glam-assert and must not panic without it
    // the build knows whether it enabled glam-assert: a probe would make a build whose assertions
    // silently compile to nothing look consistent
    let asserts_on = cfg!(feature = "assert") || (cfg!(feature = "dassert") && cfg!(debug_assertions));
    rep.extra.insert("glam_assert_enabled".into(), json!(asserts_on));
    let table: Vec<(&str, fn())> = vec![
        ("Quat::from_axis_angle(non-unit axis)", || { let _ = Quat::from_axis_angle(Vec3::new(1.0, 2.0, 3.0), 0.5); }),
        ("Mat3::from_axis_angle(non-unit axis)", || { let _ = Mat3::from_axis_angle(Vec3::new(0.0, 2.0, 0.0), 0.5); }),
        ("Mat4::from_quat(non-unit)", || { let _ = Mat4::from_quat(Quat::from_xyzw(1.0, 2.0, 3.0, 4.0)); }),
        ("Mat4::to_scale_rotation_translation(zero scale)", || { let _ = Mat4::from_scale(Vec3::new(1.0, 0.0, 1.0)).to_scale_rotation_translation(); }),
        ("Mat4::from_scale(zero)", || { let _ = Mat4::from_scale(Vec3::ZERO); }),
        ("Vec3::clamp_length(negative min)", || { let _ = Vec3::X.clamp_length(-1.0, 1.0); }),
        ("Vec3::clamp_length_max(negative)", || { let _ = Vec3::X.clamp_length_max(-1.0); }),
        ("Vec3::clamp_length(min > max)", || { let _ = Vec3::X.clamp_length(2.0, 1.0); }),
        ("Vec3::clamp(min > max)", || { let _ = Vec3::X.clamp(Vec3::ONE, Vec3::ZERO); }),
        ("Vec3::project_onto(zero)", || { let _ = Vec3::X.project_onto(Vec3::ZERO); }),
        ("Vec3::reflect(non-unit normal)", || { let _ = Vec3::X.reflect(Vec3::new(0.0, 3.0, 0.0)); }),
        ("Mat4::transform_point3(non-affine)", || { let _ = Mat4::perspective_rh(1.0, 1.0, 0.1, 10.0).transform_point3(Vec3::ONE); }),
        ("Quat::inverse(non-unit)", || { let _ = Quat::from_xyzw(0.0, 0.0, 0.0, 2.0).inverse(); }),
        ("Quat::slerp(non-unit)", || { let _ = Quat::from_xyzw(0.0, 0.0, 0.0, 2.0).slerp(Quat::IDENTITY, 0.5); }),
        ("Mat4::look_to_rh(non-unit dir)", || { let _ = Mat4::look_to_rh(Vec3::ZERO, Vec3::new(0.0, 0.0, -2.0), Vec3::Y); }),
        ("DQuat::from_axis_angle(non-unit axis)", || { let _ = DQuat::from_axis_angle(DVec3::new(1.0, 1.0, 0.0), 0.5); }),
        ("Mat4::perspective_rh(near <= 0)", || { let _ = Mat4::perspective_rh(1.0, 1.0, 0.0, 10.0); }),
    ];
    let n = table.len() as u64;
    rep.sweep_seq("negative table/documented violations", n, |idx, acc| {
        let (name, f) = table[idx as usize];
        let r = catch(f);
        acc.eval(true, r.is_err() as u64 | idx << 1);
        if r.is_err() != asserts_on {
            acc.fail(&format!("negative::{name}"), format!("glam-assert {}: {}", if asserts_on { "enabled" } else { "disabled" }, if r.is_err() { "panicked" } else { "did not panic" }));
        }
    });
}

/// lane-wise preconditions: the documented violation may sit in any subset of the lanes
fn negative_lane_patterns(rep: &mut Report) {
    let asserts_on = cfg!(feature = "assert") || (cfg!(feature = "dassert") && cfg!(debug_assertions));
    macro_rules! clamp_pat {
        ($(($T:ident, $S:ident, $N:expr)),*) => {$(
            rep.sweep_seq(concat!("negative lane patterns/", stringify!($T), "::clamp(min > max in a lane subset)/2^N subsets"), 1u64 << $N, |idx, acc| {
                let mn: [$S; $N] = core::array::from_fn(|_| 2 as $S);
                let mx: [$S; $N] = core::array::from_fn(|i| if (idx >> i) & 1 == 1 { 1 as $S } else { 3 as $S });
                let r = catch(|| { let _ = <$T>::splat(2 as $S).clamp(<$T>::from_array(mn), <$T>::from_array(mx)); });
                acc.eval(idx != 0, r.is_err() as u64 | idx << 1);
                let want = asserts_on && idx != 0;
                if r.is_err() != want {
                    acc.fail(concat!("negative::", stringify!($T), "::clamp(min > max)"), format!("glam-assert {}: min={:?} max={:?} {}", if asserts_on { "enabled" } else { "disabled" }, mn, mx, if r.is_err() { "panicked" } else { "did not panic" }));
                }
            });
        )*};
    }
    clamp_pat!((Vec2, f32, 2), (Vec3, f32, 3), (Vec3A, f32, 3), (Vec4, f32, 4), (DVec2, f64, 2), (DVec3, f64, 3), (DVec4, f64, 4),
        (IVec2, i32, 2), (IVec3, i32, 3), (IVec4, i32, 4), (UVec3, u32, 3), (I8Vec4, i8, 4), (U8Vec2, u8, 2), (I16Vec3, i16, 3), (U16Vec4, u16, 4), (I64Vec2, i64, 2), (U64Vec3, u64, 3), (USizeVec4, usize, 4));
    macro_rules! scale_pat {
        ($(($M:ident, $V:ident, $S:ident, $N:expr)),*) => {$(
            rep.sweep_seq(concat!("negative lane patterns/", stringify!($M), "::from_scale(zero in a lane subset)/2^N subsets"), 1u64 << $N, |idx, acc| {
                let sc: [$S; $N] = core::array::from_fn(|i| if (idx >> i) & 1 == 1 { 0.0 } else { 1.5 + i as $S });
                let r = catch(|| { let _ = <$M>::from_scale(<$V>::from_array(sc)); });
                let all_zero = idx == (1u64 << $N) - 1;
                acc.eval(idx != 0, r.is_err() as u64 | idx << 1);
                // documented: panics only if all elements of the scale are zero
                if r.is_err() != (asserts_on && all_zero) {
                    acc.fail(concat!("negative::", stringify!($M), "::from_scale(zero lanes)"), format!("glam-assert {}: scale={:?} {}", if asserts_on { "enabled" } else { "disabled" }, sc, if r.is_err() { "panicked" } else { "did not panic" }));
                }
            });
        )*};
    }
    scale_pat!((Mat4, Vec3, f32, 3), (Mat3, Vec2, f32, 2), (Mat3A, Vec2, f32, 2), (DMat4, DVec3, f64, 3), (DMat3, DVec2, f64, 2));
    macro_rules! srt_pat {
        ($(($M:ident, $V:ident, $Q:ident, $S:ident)),*) => {$(
            rep.sweep_seq(concat!("negative lane patterns/", stringify!($M), "::to_scale_rotation_translation(zero scale in a lane subset)/8 subsets"), 8, |idx, acc| {
                let sc: [$S; 3] = core::array::from_fn(|i| if (idx >> i) & 1 == 1 { 0.0 } else { 1.5 + i as $S });
                // built from columns so that the constructor's own assertion is not what fires
                let rot = <$Q>::from_axis_angle(<$V>::new(0.6, 0.0, 0.8), 0.7);
                let m = <$M>::from_rotation_translation(rot, <$V>::new(1.0, 2.0, 3.0));
                let r = catch(|| {
                    let mut m = m;
                    m.x_axis *= sc[0]; m.y_axis *= sc[1]; m.z_axis *= sc[2];
                    let _ = m.to_scale_rotation_translation();
                });
                acc.eval(idx != 0, r.is_err() as u64 | idx << 1);
                if r.is_err() != (asserts_on && idx != 0) {
                    acc.fail(concat!("negative::", stringify!($M), "::to_scale_rotation_translation(zero scale)"), format!("glam-assert {}: scale={:?} {}", if asserts_on { "enabled" } else { "disabled" }, sc, if r.is_err() { "panicked" } else { "did not panic" }));
                }
            });
        )*};
    }
    srt_pat!((Mat4, Vec3, Quat, f32), (DMat4, DVec3, DQuat, f64));
}

fn main() {
    let mut rep = Report::new("C20", "model_checking");
    silence_panics();
    rep.rule("stateright model: state = typed pool of real glam values (unit Vec3 x2, unit Vec3A, unit Vec2, unit Quat x2, rotation Mat3, rigid Mat4, rigid Affine3A, scale-carrying Mat4, unit DVec3/DQuat, rigid DMat4), init = 8 finite non-degenerate seeds, actions = 65 precondition-carrying operations fed with pool values, BFS over all sequences up to the depth bound; always-properties: no transition panics; every produced value passes the predicates the next operation asserts (is_normalized, affine last row, normalised axes, det != 0). E1: every length-12 sequence over each pair of closed operations. E3: per-operation sums of the hashes of all produced pools, compared byte-for-byte between the builds with and without glam-assert. Negative table: documented violations panic iff glam-assert is enabled");
    // thorough: depth 4 (from 4 of the 8 seeds) in the SSE2 pair, depth 3 in the scalar-math pair
    let max_depth: u8 = if rep.thorough() && !rep.cfg().contains("scalar") { 4 } else { 3 };
    let model = Chains { ops: ops(), seeds: if max_depth >= 4 { seeds().into_iter().step_by(2).collect() } else { seeds() }, max_depth };
    rep.extra.insert("operations".into(), json!(model.ops.iter().map(|o| o.0).collect::<Vec<_>>()));
    let opsv = ops();
    let seedsv = seeds();
    run_bfs(&mut rep, &format!("operation-chain model (depth {max_depth})"), "chain", model, false, |m, s| {
        if s.panicked != 0 {
            (format!("panic in `{}`", m.ops[s.panicked as usize - 1].0), format!("the operation panicked on the pool {:?}", m.pool_of(s)))
        } else {
            m.pool_of(s).check().unwrap_or(("?".into(), "no failing post-condition on re-evaluation".into()))
        }
    });
    let mut stream: Vec<String> = vec![];
    for (i, o) in opsv.iter().enumerate() {
        stream.push(format!("op#{i} {}\tcount={}\tsum={}", o.0, COUNTS[i].load(Ordering::Relaxed), SUMS[i].load(Ordering::Relaxed)));
    }
    long_chains(&mut rep, &opsv, &seedsv, &mut stream);
    boundary_producers(&mut rep);
    negative_table(&mut rep);
    negative_lane_patterns(&mut rep);
    let path = format!("{}/work/C20.{}.{}.stream", VERIF_DIR, rep.args.cfg, rep.args.tier);
    let mut f = std::fs::File::create(&path).expect("stream file");
    for l in &stream {
        writeln!(f, "{l}").unwrap();
    }
    rep.sample(json!({"seed": 1, "chain": ["q = from_axis_angle(u, 3.1)", "q = q * q", "m3 = Mat3::from_quat(q)", "q = from_mat3(m3)"], "checked": "no panic with glam-assert; is_normalized / affine / axis predicates after every step; produced bits identical with and without glam-assert"}));
    std::process::exit(rep.finish());
}
