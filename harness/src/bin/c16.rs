//! C16 — swizzle getters and with_ setters permute exactly the lanes their names spell.
//! The call list is generated from src/swizzles/vec_traits.rs of the tree under test; the expected
//! lane map is derived from the letters of the method name. Mode: bits.
#![allow(clippy::all)]
use glam::*;
use harness::flat::*;
use harness::rep::*;
use serde_json::json;

fn lane_of(c: u8) -> usize {
    match c {
        b'x' => 0,
        b'y' => 1,
        b'z' => 2,
        b'w' => 3,
        _ => panic!("bad swizzle letter"),
    }
}

fn get<S: Sc>(acc: &mut Acc, tn: &str, name: &str, x: &[S], got: &[S]) {
    let want: Vec<S> = name.bytes().map(|c| x[lane_of(c)]).collect();
    acc.eval(true, got.iter().fold(name.len() as u64, |h, s| hmix(h, s.bits())));
    if !bits_eq(got, &want) {
        acc.fail(&format!("{tn}::{name}"), format!("in={} got={} want={}", show(x), show(got), show(&want)));
    }
}
fn set<S: Sc>(acc: &mut Acc, tn: &str, name: &str, x: &[S], r: &[S], got: &[S]) {
    let letters = &name[5..];
    let mut want = x.to_vec();
    for (k, c) in letters.bytes().enumerate() {
        want[lane_of(c)] = r[k];
    }
    acc.eval(true, got.iter().fold(name.len() as u64, |h, s| hmix(h, s.bits())));
    if !bits_eq(got, &want) {
        acc.fail(&format!("{tn}::{name}"), format!("self={} rhs={} got={} want={}", show(x), show(&r[..letters.len()]), show(got), show(&want)));
    }
}

/// input rounds: tagged distinct lanes (several tag sets), ordinary distinct values, all equal, signed zeros
fn lanes_for<S: Sc>(round: usize, n: usize, off: usize) -> Vec<S> {
    match round {
        0..=3 => (0..n).map(|i| S::tag(i + off + round * 8)).collect(),
        4 => (0..n).map(|i| S::fin(i + off)).collect(),
        5 => (0..n).map(|_| S::tag(off)).collect(),
        6 => (0..n).map(|i| if (i + off) % 2 == 0 { S::zero() } else { S::tag(2) }).collect(), // +0 / -0 (floats)
        _ => (0..n).map(|i| S::fin(n + off - i)).collect(),
    }
}
const ROUNDS: u64 = 8;

const HIDDEN: [u32; 8] = [0, 0x3F80_0000, 0x7F80_0000, 0xFF80_0000, 0x7FC0_0000, 0x7F80_0001, 0xFFFF_FFFF, 0x8000_0000];

macro_rules! swz_type {
    ($rep:ident, Vec3A, $f:ident) => {{
        // every hidden-lane content injected through from_vec4
        $rep.sweep("Vec3A/swizzles/rounds x hidden-lane contents", ROUNDS * 8, |idx, acc| {
            let (round, h) = ((idx % ROUNDS) as usize, (idx / ROUNDS) as usize);
            let x = lanes_for::<f32>(round, 3, 0);
            let r = lanes_for::<f32>(round, 3, 4);
            let v = Vec3A::from_vec4(Vec4::new(x[0], x[1], x[2], f32::from_bits(HIDDEN[h])));
            $f::<Vec3A>(&x, &r, v, acc, "Vec3A");
        });
    }};
    ($rep:ident, $T:ident, $f:ident) => {{
        $rep.sweep(concat!(stringify!($T), "/swizzles/rounds"), ROUNDS, |idx, acc| {
            let n = <$T as Flat>::N;
            let x = lanes_for::<<$T as Flat>::S>(idx as usize, n, 0);
            let r = lanes_for::<<$T as Flat>::S>(idx as usize, n, 4);
            $f::<$T>(&x, &r, <$T as Flat>::build(&x), acc, stringify!($T));
        });
    }};
}

include!("../generated/c16_table.rs");

fn main() {
    let mut rep = Report::new("C16", "exploration");
    silence_panics();
    rep.rule("cases = (implementing type, swizzle method from the trait definitions of the tree, input round); rounds: 4 sets of pairwise distinct tagged lanes (NaN payloads, -0, subnormals, extremes), distinct ordinary values, all-equal, signed zeros, reversed; Vec3A additionally x 8 hidden-lane contents; expected lanes derived from the method name's letters; comparison bit-for-bit; every case non-trivial");
    run_generated(&mut rep);
    rep.extra.insert("getters_per_dimension".into(), json!(GETTERS));
    rep.extra.insert("setters_per_dimension".into(), json!(SETTERS));
    rep.extra.insert("implementing_types".into(), json!(IMPL_TYPES));
    if GETTERS != [28, 117, 336] {
        rep.warnings.push(format!("unexpected getter counts {:?} (documented: 28/117/336)", GETTERS));
    }
    rep.sample(json!({"type": "Vec3A", "method": "zxy", "in": "lanes tagged NaN#0, -1.5, -0.0; hidden lane = 0xFFFFFFFF", "want": "[lane2, lane0, lane1] bit-for-bit, result type Vec3A"}));
    rep.sample(json!({"type": "I16Vec4", "method": "with_wy", "self": [32767, -32768, 0, 1], "rhs": [4, -5], "want": [32767, -5, 0, 4]}));
    std::process::exit(rep.finish());
}
