//! C02 — vector geometry (dot, cross, length, normalize, project, angle) is accurate (E1).
//! Layer 1: exact small-integer grids (polynomial identity). Layer 2: direction-pair families at
//! five magnitude scales vs f64 reference within K*eps*sum|terms|. Layer 3: normalize family over
//! the special-value lattice with the normal / fallback / slack classification.
#![allow(clippy::all)]
use glam::*;
use harness::flat::*;
use harness::lat::*;
use harness::mat::{build_f64, f64s};
use harness::refm::*;
use harness::rep::*;
use serde_json::json;

fn grid_vec(n: usize, mut idx: u64) -> Vec<f64> {
    (0..n)
        .map(|_| {
            let v = (idx % 5) as f64 - 2.0;
            idx /= 5;
            v
        })
        .collect()
}

/// base directions for dimension n
fn base_dirs(n: usize, thorough: bool) -> Vec<Vec<f64>> {
    let k: i32 = match n {
        2 => 3,
        3 => {
            if thorough {
                3
            } else {
                2
            }
        }
        _ => 1,
    };
    let mut v = vec![];
    let b = (2 * k + 1) as usize;
    for idx in 0..b.pow(n as u32) {
        let mut i = idx;
        let d: Vec<f64> = (0..n)
            .map(|_| {
                let x = (i % b) as f64 - k as f64;
                i /= b;
                x
            })
            .collect();
        if d.iter().any(|x| *x != 0.0) {
            v.push(d);
        }
    }
    v
}
const DELTAS: [f64; 7] = [0.0, 9.5367431640625e-7, -9.5367431640625e-7, 0.0009765625, -0.0009765625, 0.0625, -0.0625];
// scale pairs keep every non-zero component within [2^-40, 2^40]: base integers <= 3, perturbations >= 2^-21
const SCALES: [(f64, f64); 5] = [(1.0, 1.0), (1.220703125e-4, 8192.0), (6.8719476736e10, 6.8719476736e10), (3.814697265625e-6, 3.814697265625e-6), (8192.0, 1.0)];

/// partner k of base direction a: other base directions, then +-a(1+d) + e*w
fn partner(a: &[f64], k: usize, dirs: &[Vec<f64>]) -> Vec<f64> {
    let n = a.len();
    if k < 16 {
        return dirs[(k * 7919 + 13) % dirs.len()].clone();
    }
    let k = k - 16;
    let sign = if k % 2 == 0 { 1.0 } else { -1.0 };
    let d = DELTAS[(k / 2) % 7];
    let e = DELTAS[(k / 14) % 7];
    // w: a rotated by one lane with a sign flip (never parallel to a unless a is degenerate)
    let w: Vec<f64> = (0..n).map(|i| if i == 0 { -a[n - 1] - 1.0 } else { a[i - 1] + 0.5 }).collect();
    (0..n).map(|i| sign * a[i] * (1.0 + d) + e * w[i]).collect()
}
const NPART: usize = 16 + 98;

#[derive(PartialEq, Clone, Copy, Debug)]
enum Class {
    Normal,
    Fallback,
    Slack,
}

macro_rules! geom {
    ($rep:ident, $T:ident, $S:ident, $N:expr, $eps:expr, cross=$cross:tt, perp=$perp:tt, angle=$angle:tt, $special:ident, $small:ident) => {{
        type T = $T;
        const N: usize = $N;
        let tn = stringify!($T);
        let eps: f64 = $eps;
        let nn = N as f64;
        // ------------------------------------------------------------------ layer 1: exact integers
        let g = 5u64.pow(N as u32);
        $rep.sweep(&format!("{tn}/exact-int/all pairs of {{-2..2}}^{N}"), g * g, |idx, acc| {
            let (a, b) = (grid_vec(N, idx % g), grid_vec(N, idx / g));
            let (va, vb): (T, T) = (build_f64(&a), build_f64(&b));
            let nz = a.iter().filter(|x| **x != 0.0).count() >= 2.min(N) && b.iter().any(|x| *x != 0.0);
            macro_rules! ex {
                ($site:literal, $got:expr, $want:expr) => {{
                    let g: f64 = $got as f64;
                    let w: f64 = $want;
                    acc.eval(nz, g.to_bits());
                    if g != w {
                        acc.fail(&format!("{tn}::{}", $site), format!("a={:?} b={:?} got={} want={}", a, b, g, w));
                    }
                }};
            }
            macro_rules! exv {
                ($site:literal, $got:expr, $want:expr) => {{
                    let g: Vec<f64> = f64s(&$got);
                    let w: Vec<f64> = $want;
                    acc.eval(nz, g.iter().fold(0, |h, x| hmix(h, x.to_bits())));
                    if g != w {
                        acc.fail(&format!("{tn}::{}", $site), format!("a={:?} b={:?} got={:?} want={:?}", a, b, g, w));
                    }
                }};
            }
            ex!("dot", va.dot(vb), dot(&a, &b));
            exv!("dot_into_vec", va.dot_into_vec(vb), vec![dot(&a, &b); N]);
            ex!("length_squared", va.length_squared(), dot(&a, &a));
            ex!("distance_squared", va.distance_squared(vb), dot(&sub(&a, &b), &sub(&a, &b)));
            ex!("element_sum", va.element_sum(), a.iter().sum::<f64>());
            ex!("element_product", va.element_product(), a.iter().product::<f64>());
            exv!("midpoint", va.midpoint(vb), (0..N).map(|i| (a[i] + b[i]) * 0.5).collect());
            for s in [-1.0f64, 0.0, 1.0, 2.0] {
                exv!("lerp", va.lerp(vb, s as $S), (0..N).map(|i| a[i] + (b[i] - a[i]) * s).collect());
            }
            // reflect is the polynomial v - 2 (v.n) n for any n
            exv!("reflect", va.reflect(vb), (0..N).map(|i| a[i] - 2.0 * dot(&a, &b) * b[i]).collect());
            geom!(@cross $cross, exv, va, vb, a, b);
            geom!(@perp $perp, ex, exv, va, vb, a, b);
        });
        // ------------------------------------------------------------------ layer 2: rounding envelopes
        let dirs = base_dirs(N, $rep.thorough());
        let nd = dirs.len() as u64;
        let dirsr = &dirs;
        $rep.sweep(&format!("{tn}/envelope/{nd} base directions x {NPART} partners x 5 scale pairs"), nd * NPART as u64 * 5, |idx, acc| {
            let d = digits(idx, [nd, NPART as u64, 5]);
            let a0 = &dirsr[d[0]];
            let b0 = partner(a0, d[1], dirsr);
            let (sa, sb) = SCALES[d[2]];
            let (va, vb): (T, T) = (build_f64(&scale(a0, sa)), build_f64(&scale(&b0, sb)));
            let (a, b) = (f64s(&va), f64s(&vb)); // the stored (rounded) operands
            if b.iter().all(|x| *x == 0.0) {
                return;
            }
            let ctx = || format!("a={:?} b={:?}", a, b);
            // "inputs whose products neither overflow nor underflow": an operation whose formula
            // multiplies up to `deg` components is only judged when every such product of the
            // operands' component magnitudes stays in the normal range of the scalar type
            let amax = a.iter().chain(b.iter()).fold(0.0f64, |m, x| m.max(x.abs()));
            let amin = a.iter().chain(b.iter()).filter(|x| **x != 0.0).fold(f64::INFINITY, |m, x| m.min(x.abs()));
            let dom = |deg: i32| -> bool { amax.max(1.0).powi(deg) * 16.0 < <$S>::MAX as f64 && amin.min(1.0).powi(deg) > <$S>::MIN_POSITIVE as f64 * 16.0 };
            macro_rules! en {
                ($site:literal, $got:expr, $want:expr, $bound:expr) => {{
                    let g: f64 = $got as f64;
                    acc.eval(true, g.to_bits());
                    env(acc, &format!("{tn}::{}", $site), g, $want, $bound, &ctx);
                }};
            }
            macro_rules! env_v {
                ($site:literal, $got:expr, $want:expr, $bound:expr) => {{
                    let g: Vec<f64> = f64s(&$got);
                    let w: Vec<f64> = $want;
                    let b: Vec<f64> = $bound;
                    acc.eval(true, g.iter().fold(0, |h, x| hmix(h, x.to_bits())));
                    env_vec(acc, &format!("{tn}::{}", $site), &g, &w, &b, &ctx);
                }};
            }
            let (la, lb) = (norm(&a), norm(&b));
            let dab = dot(&a, &b);
            let sab = dot_abs(&a, &b);
            en!("dot", va.dot(vb), dab, 2.0 * nn * eps * sab);
            en!("length", va.length(), la, 2.0 * (nn + 1.0) * eps * la);
            en!("length_squared", va.length_squared(), la * la, 2.0 * nn * eps * la * la);
            en!("length_recip", va.length_recip(), 1.0 / la, 2.0 * (nn + 2.0) * eps / la);
            let df = sub(&a, &b);
            let ld = norm(&df);
            // distance: the terms combined are the squared differences, and a floating-point difference is
            // correctly rounded relative to *itself* (exact for nearby operands), so the bound is relative
            // to the distance - an expanded |a|^2 - 2 a.b + |b|^2 would only meet eps (|a| + |b|)^2
            en!("distance", va.distance(vb), ld, 2.0 * (nn + 2.0) * eps * ld);
            en!("distance_squared", va.distance_squared(vb), ld * ld, 2.0 * (nn + 2.0) * eps * ld * ld);
            en!("element_sum", va.element_sum(), a.iter().sum::<f64>(), 2.0 * nn * eps * a.iter().map(|x| x.abs()).sum::<f64>());
            let ep: f64 = a.iter().product();
            if dom(N as i32) {
                en!("element_product", va.element_product(), ep, 2.0 * nn * eps * ep.abs());
            }
            env_v!("midpoint", va.midpoint(vb), (0..N).map(|i| (a[i] + b[i]) * 0.5).collect(), (0..N).map(|i| 4.0 * eps * (a[i].abs() + b[i].abs())).collect());
            for s in [0.25f64, 1.0 / 3.0, -0.5, 1.75, 0.999, 1.0 - 1.0 / 1024.0, 1.0 / 4096.0] {
                let s = s as $S as f64;
                // the terms combined are a(1-s) and b*s: K*eps times the sum of their magnitudes
                env_v!("lerp", va.lerp(vb, s as $S), (0..N).map(|i| a[i] * (1.0 - s) + b[i] * s).collect(), (0..N).map(|i| 6.0 * eps * ((a[i] * (1.0 - s)).abs() + (b[i] * s).abs())).collect());
            }
            // projection family (scale: |b_i| * sum|a_j b_j| / b.b)
            let bb = dot(&b, &b);
            let pj: Vec<f64> = (0..N).map(|i| b[i] * dab / bb).collect();
            let kp = 2.0 * (2.0 * nn + 3.0);
            let spj: Vec<f64> = (0..N).map(|i| kp * eps * b[i].abs() * sab / bb).collect();
            if dom(3) {
                acc.branch("project/reject: in domain");
                env_v!("project_onto", va.project_onto(vb), pj.clone(), spj.clone());
                env_v!("reject_from", va.reject_from(vb), (0..N).map(|i| a[i] - pj[i]).collect(), (0..N).map(|i| spj[i] + 2.0 * eps * (a[i].abs() + pj[i].abs())).collect());
            } else {
                acc.branch("project/reject: a 3-fold product leaves the normal range (outside the statement)");
            }
            // unit-normal forms: normal = stored normalised b
            let vn: T = build_f64(&normalize(&b));
            let nrm = f64s(&vn);
            let dn = dot(&a, &nrm);
            let sn = dot_abs(&a, &nrm);
            let pn: Vec<f64> = (0..N).map(|i| nrm[i] * dn).collect();
            let spn: Vec<f64> = (0..N).map(|i| 2.0 * (nn + 1.0) * eps * nrm[i].abs() * sn).collect();
            env_v!("project_onto_normalized", va.project_onto_normalized(vn), pn.clone(), spn.clone());
            env_v!("reject_from_normalized", va.reject_from_normalized(vn), (0..N).map(|i| a[i] - pn[i]).collect(), (0..N).map(|i| spn[i] + 2.0 * eps * (a[i].abs() + pn[i].abs())).collect());
            env_v!("reflect", va.reflect(vn), (0..N).map(|i| a[i] - 2.0 * dn * nrm[i]).collect(), (0..N).map(|i| 2.0 * (nn + 3.0) * eps * (a[i].abs() + 2.0 * sn * nrm[i].abs())).collect());
            // normals that are "normalized" only within glam's own tolerance (|n|^2 = 1 +- 1e-4): the
            // documented formulas a.n n, a - a.n n, a - 2 a.n n apply to the normal as stored (no division)
            for k in [1.00005f64, 0.99995] {
                let vk: T = build_f64(&scale(&normalize(&b), k));
                let nk = f64s(&vk);
                let (dk, sk) = (dot(&a, &nk), dot_abs(&a, &nk));
                let pk: Vec<f64> = (0..N).map(|i| nk[i] * dk).collect();
                let spk: Vec<f64> = (0..N).map(|i| 2.0 * (nn + 1.0) * eps * nk[i].abs() * sk).collect();
                env_v!("project_onto_normalized(nearly unit normal)", va.project_onto_normalized(vk), pk.clone(), spk.clone());
                env_v!("reject_from_normalized(nearly unit normal)", va.reject_from_normalized(vk), (0..N).map(|i| a[i] - pk[i]).collect(), (0..N).map(|i| spk[i] + 2.0 * eps * (a[i].abs() + pk[i].abs())).collect());
                env_v!("reflect(nearly unit normal)", va.reflect(vk), (0..N).map(|i| a[i] - 2.0 * dk * nk[i]).collect(), (0..N).map(|i| 2.0 * (nn + 3.0) * eps * (a[i].abs() + 2.0 * sk * nk[i].abs())).collect());
            }
            // refract: unit incident and normal
            let vi: T = build_f64(&normalize(&a));
            let inc = f64s(&vi);
            // the fixed ratios plus, per incident/normal pair, ratios placed just outside the rounding
            // slack on either side of the total-internal-reflection boundary k = 0
            let mut etas = vec![0.5f64, 0.9, 1.0, 1.1, 1.5, 2.0];
            {
                let ndi = dot(&nrm, &inc);
                let sin2 = 1.0 - ndi * ndi;
                if sin2 > 1e-4 {
                    let eta0 = (1.0 / sin2).sqrt();
                    let ks0 = 8.0 * (nn + 2.0) * eps * (1.0 + eta0 * eta0);
                    for kt in [4.0 * ks0, 64.0 * ks0, 1000.0 * ks0, -4.0 * ks0, -64.0 * ks0, -1000.0 * ks0] {
                        // as the operand type stores it
                        etas.push(((1.0 - kt) / sin2).sqrt() as $S as f64);
                    }
                }
            }
            for eta in etas {
                let ndi = dot(&nrm, &inc);
                let k = 1.0 - eta * eta * (1.0 - ndi * ndi);
                let kslack = 8.0 * (nn + 2.0) * eps * (1.0 + eta * eta);
                let g = f64s(&vi.refract(vn, eta as $S));
                acc.eval(true, g[0].to_bits());
                let is_zero = g.iter().all(|x| *x == 0.0);
                if k < -kslack {
                    acc.branch("refract: total internal reflection");
                    if !is_zero {
                        acc.fail(&format!("{tn}::refract"), format!("{} eta={} k={} got={:?} want zero", ctx(), eta, k, g));
                    }
                } else if k > kslack {
                    acc.branch("refract: transmitted");
                    let sq = k.sqrt();
                    let want: Vec<f64> = (0..N).map(|i| eta * inc[i] - (eta * ndi + sq) * nrm[i]).collect();
                    // sqrt conditioning: d sqrt(k) = dk / (2 sqrt k)
                    // (the error of k itself - at most (N+2) eps (1+eta^2), a quarter of kslack with a factor 2 to spare -
                    // passes through the square root undamped: d sqrt(k) = dk / (2 sqrt k))
                    let bound: Vec<f64> = (0..N).map(|i| 2.0 * (nn + 6.0) * eps * (eta * inc[i].abs() + (eta * dot_abs(&nrm, &inc) + sq) * nrm[i].abs()) + kslack / (8.0 * sq) * nrm[i].abs()).collect();
                    env_vec(acc, &format!("{tn}::refract"), &g, &want, &bound, &|| format!("{} eta={} k={}", ctx(), eta, k));
                } else {
                    acc.branch("refract: within slack of the boundary (either side accepted)");
                }
            }
            geom!(@cross_env $cross, env_v, va, vb, a, b, eps);
            geom!(@perp_env $perp, en, va, vb, a, b, eps);
            if dom(4) {
                acc.branch("angle: in domain");
                geom!(@angle $angle, acc, tn, va, vb, a, b, eps, nn, $S, ctx);
            } else {
                acc.branch("angle: a 4-fold product leaves the normal range (outside the statement)");
            }
        });
        // ------------------------------------------------------------------ layer 3a: nearly unit vectors
        // (a "close enough to 1 already" shortcut must not leave the length error in place)
        {
            let dirs = harness::fam::unit_dirs(2);
            let nd = dirs.len() as u64;
            let dr = &dirs;
            let offs: [f64; 12] = [1e-7, -1e-7, 1e-6, -1e-6, 3e-6, -3e-6, 1e-5, -1e-5, 1e-4, -1e-4, 1e-3, 0.0];
            $rep.sweep(&format!("{tn}/normalize family/{nd} directions x 12 lengths within 1e-3 of 1"), nd * 12, |idx, acc| {
                let d = dr[(idx % nd) as usize];
                let k = 1.0 + offs[(idx / nd) as usize] * if stringify!($S) == "f64" { 1.0 } else { 1.0 };
                let mut x = [0.0 as $S; N];
                for i in 0..N.min(3) { x[i] = (d[i] * k) as $S; }
                if N == 4 { x[3] = (0.5 * k) as $S; x[0] = (x[0] as f64 * 0.8660254037844386) as $S; x[1] = (x[1] as f64 * 0.8660254037844386) as $S; x[2] = (x[2] as f64 * 0.8660254037844386) as $S; }
                let v = <T as Flat>::build(&x);
                let xf: Vec<f64> = x.iter().map(|t| *t as f64).collect();
                let len = norm(&xf);
                acc.eval(true, idx);
                if !(len > 0.5) { return; }
                let ctx = || format!("v={:?} true length={:e}", xf, len);
                let fbv = <T as Flat>::build(&(0..N).map(|i| <$S as Sc>::fin(i + 3)).collect::<Vec<_>>());
                let outs: Vec<(&str, Vec<f64>)> = vec![
                    ("normalize", f64s(&v.normalize())), ("try_normalize", v.try_normalize().map(|t| f64s(&t)).unwrap_or_default()),
                    ("normalize_or_zero", f64s(&v.normalize_or_zero())), ("normalize_or", f64s(&v.normalize_or(fbv))), ("normalize_and_length", f64s(&v.normalize_and_length().0)),
                ];
                for (site, u) in outs {
                    let lu = norm(&u);
                    let want: Vec<f64> = xf.iter().map(|t| t / len).collect();
                    if !((lu - 1.0).abs() <= 4.0 * eps && u.len() == N && (0..N).all(|i| (u[i] - want[i]).abs() <= 4.0 * eps)) {
                        acc.fail(&format!("{tn}::{site}(nearly unit input)"), format!("{} got={:?} |got|-1={:e}", ctx(), u, lu - 1.0));
                    }
                }
            });
        }
        // ------------------------------------------------------------------ layer 3: normalize family
        let sp: Vec<$S> = if N <= 3 { $special() } else { $small() };
        let l = sp.len() as u64;
        let spr = &sp;
        $rep.sweep(&format!("{tn}/normalize family/lattice({l})^{N}"), l.pow(N as u32), |idx, acc| {
            let mut i = idx;
            let x: Vec<$S> = (0..N).map(|_| { let v = spr[(i % l) as usize]; i /= l; v }).collect();
            let v = <T as Flat>::build(&x);
            let xf: Vec<f64> = x.iter().map(|t| *t as f64).collect();
            let len = norm(&xf); // scaled, exact up to f64 rounding even where the squares overflow
            let finite_lanes = xf.iter().all(|t| t.is_finite());
            let rcp = 1.0 / len;
            let class = if len.is_nan() || !((rcp as $S).is_finite()) || !(rcp > 0.0) {
                Class::Fallback
            } else if finite_lanes && len * len >= <$S>::MIN_POSITIVE as f64 * 4.0 && len * len <= <$S>::MAX as f64 / 4.0 && (len as $S).is_finite() {
                Class::Normal
            } else {
                Class::Slack
            };
            acc.branch(match class { Class::Normal => "normal", Class::Fallback => "fallback", Class::Slack => "slack" });
            let ctx = || format!("v={} class={:?} true length={:e}", show(&x), class, len);
            let fb = <T as Flat>::build(&(0..N).map(|i| <$S as Sc>::fin(i + 3)).collect::<Vec<_>>());
            let unit_ok = |u: &[f64]| -> bool {
                // length 1 within 4 eps and parallel to the input (same direction)
                let lu = norm(u);
                let want: Vec<f64> = xf.iter().map(|t| t / len).collect();
                (lu - 1.0).abs() <= 4.0 * eps && (0..N).all(|i| (u[i] - want[i]).abs() <= 4.0 * eps)
            };
            let finite = |u: &[f64]| u.iter().all(|t| t.is_finite());
            let tnz = v.try_normalize();
            let noz = f64s(&v.normalize_or_zero());
            let nor = v.normalize_or(fb);
            let (nal, nall) = v.normalize_and_length();
            acc.eval(xf.iter().any(|t| *t != 0.0), noz.iter().fold(tnz.is_some() as u64, |h, t| hmix(h, t.to_bits())));
            match class {
                Class::Normal => {
                    let u = f64s(&v.normalize());
                    if !unit_ok(&u) { acc.fail(&format!("{tn}::normalize"), format!("{} got={:?}", ctx(), u)); }
                    match tnz { Some(t) if unit_ok(&f64s(&t)) => {}, other => acc.fail(&format!("{tn}::try_normalize"), format!("{} got={:?}", ctx(), other.map(|t| f64s(&t)))) }
                    if !unit_ok(&noz) { acc.fail(&format!("{tn}::normalize_or_zero"), format!("{} got={:?}", ctx(), noz)); }
                    if !unit_ok(&f64s(&nor)) { acc.fail(&format!("{tn}::normalize_or"), format!("{} got={:?}", ctx(), f64s(&nor))); }
                    if !unit_ok(&f64s(&nal)) || ((nall as f64) - len).abs() > 2.0 * (nn + 1.0) * eps * len { acc.fail(&format!("{tn}::normalize_and_length"), format!("{} got=({:?}, {})", ctx(), f64s(&nal), nall)); }
                }
                Class::Fallback => {
                    if tnz.is_some() { acc.fail(&format!("{tn}::try_normalize"), format!("{} got Some, want None", ctx())); }
                    if !noz.iter().all(|t| t.to_bits() == 0) { acc.fail(&format!("{tn}::normalize_or_zero"), format!("{} got={:?} want +0", ctx(), noz)); }
                    if !bits_eq(&nor.lanes(), &fb.lanes()) { acc.fail(&format!("{tn}::normalize_or"), format!("{} got={:?} want the fallback", ctx(), f64s(&nor))); }
                    let mut xa = vec![0.0f64; N];
                    xa[0] = 1.0;
                    if f64s(&nal) != xa || nall != 0.0 { acc.fail(&format!("{tn}::normalize_and_length"), format!("{} got=({:?}, {}) want (X, 0)", ctx(), f64s(&nal), nall)); }
                }
                Class::Slack => {}
            }
            // in every class the checked forms never return a non-finite vector
            if let Some(t) = tnz { if !finite(&f64s(&t)) { acc.fail(&format!("{tn}::try_normalize"), format!("{} returned a non-finite vector {:?}", ctx(), f64s(&t))); } }
            if !finite(&noz) { acc.fail(&format!("{tn}::normalize_or_zero"), format!("{} returned a non-finite vector {:?}", ctx(), noz)); }
            if !finite(&f64s(&nor)) { acc.fail(&format!("{tn}::normalize_or"), format!("{} returned a non-finite vector {:?}", ctx(), f64s(&nor))); }
            if !finite(&f64s(&nal)) { acc.fail(&format!("{tn}::normalize_and_length"), format!("{} returned a non-finite vector {:?}", ctx(), f64s(&nal))); }
        });
    }};
    (@cross yes, $exv:ident, $va:ident, $vb:ident, $a:ident, $b:ident) => { $exv!("cross", $va.cross($vb), cross(&$a, &$b).to_vec()); };
    (@cross no, $exv:ident, $va:ident, $vb:ident, $a:ident, $b:ident) => {};
    (@perp yes, $ex:ident, $exv:ident, $va:ident, $vb:ident, $a:ident, $b:ident) => {
        $ex!("perp_dot", $va.perp_dot($vb), $a[0] * $b[1] - $a[1] * $b[0]);
        $exv!("perp", $va.perp(), vec![-$a[1], $a[0]]);
        $exv!("rotate", $va.rotate($vb), vec![$a[0] * $b[0] - $a[1] * $b[1], $a[1] * $b[0] + $a[0] * $b[1]]);
    };
    (@perp no, $ex:ident, $exv:ident, $va:ident, $vb:ident, $a:ident, $b:ident) => {};
    (@cross_env yes, $env_v:ident, $va:ident, $vb:ident, $a:ident, $b:ident, $eps:ident) => {
        $env_v!("cross", $va.cross($vb), cross(&$a, &$b).to_vec(), vec![6.0 * $eps * (($a[1] * $b[2]).abs() + ($a[2] * $b[1]).abs()), 6.0 * $eps * (($a[2] * $b[0]).abs() + ($a[0] * $b[2]).abs()), 6.0 * $eps * (($a[0] * $b[1]).abs() + ($a[1] * $b[0]).abs())]);
    };
    (@cross_env no, $env_v:ident, $va:ident, $vb:ident, $a:ident, $b:ident, $eps:ident) => {};
    (@perp_env yes, $en:ident, $va:ident, $vb:ident, $a:ident, $b:ident, $eps:ident) => {
        $en!("perp_dot", $va.perp_dot($vb), $a[0] * $b[1] - $a[1] * $b[0], 6.0 * $eps * (($a[0] * $b[1]).abs() + ($a[1] * $b[0]).abs()));
    };
    (@perp_env no, $en:ident, $va:ident, $vb:ident, $a:ident, $b:ident, $eps:ident) => {};
    (@angle no, $acc:ident, $tn:ident, $va:ident, $vb:ident, $a:ident, $b:ident, $eps:ident, $nn:ident, $S:ident, $ctx:ident) => {};
    (@angle yes, $acc:ident, $tn:ident, $va:ident, $vb:ident, $a:ident, $b:ident, $eps:ident, $nn:ident, $S:ident, $ctx:ident) => {{
        let th = angle(&$a, &$b);
        let a_acc = if stringify!($S) == "f32" { 2e-6 } else { 0.0 };
        let tol = a_acc + 2.0 * (3.0 * $nn + 4.0) * $eps / th.sin().abs().max($eps.sqrt());
        let g = $va.angle_between($vb) as f64;
        $acc.eval(true, g.to_bits());
        env($acc, &format!("{}::angle_between", $tn), g, th, tol, &$ctx);
    }};
    (@angle two, $acc:ident, $tn:ident, $va:ident, $vb:ident, $a:ident, $b:ident, $eps:ident, $nn:ident, $S:ident, $ctx:ident) => {{
        // 2-D: signed angle from self to rhs; the sign is that of the perp product and is only
        // judged where it is not itself within rounding of zero
        let th = angle(&$a, &$b);
        let a_acc = if stringify!($S) == "f32" { 2e-6 } else { 0.0 };
        let tol = a_acc + 2.0 * (3.0 * $nn + 4.0) * $eps / th.sin().abs().max($eps.sqrt());
        let pd = $a[0] * $b[1] - $a[1] * $b[0];
        let spd = ($a[0] * $b[1]).abs() + ($a[1] * $b[0]).abs();
        let g = $va.angle_to($vb) as f64;
        $acc.eval(true, g.to_bits());
        if pd.abs() > 8.0 * $eps * spd {
            env($acc, &format!("{}::angle_to", $tn), g, th * pd.signum(), tol, &$ctx);
        } else {
            env($acc, &format!("{}::angle_to", $tn), g.abs(), th, tol, &$ctx);
        }
        // the deprecated 2-D `angle_between` ("semantics will change"): its sign convention is not
        // fixed by the statement, its magnitude is the angle
        #[allow(deprecated)]
        let gb = $va.angle_between($vb) as f64;
        env($acc, &format!("{}::angle_between(magnitude)", $tn), gb.abs(), th, tol, &$ctx);
    }};
}

fn main() {
    let mut rep = Report::new("C02", "exploration");
    silence_panics();
    rep.rule("layer 1: all pairs of integer vectors {-2..2}^N (dot, cross, perp_dot, length_squared, distance_squared, element_sum/product, midpoint, lerp at s in {-1,0,1,2}, reflect, rotate) exact; layer 2: base directions x 114 partners (other directions; +-a(1+d)+e*w for d,e in {0,+-2^-20,+-2^-10,+-2^-4}: nearly parallel / anti-parallel / cancellation) x 5 magnitude-scale pairs in [2^-40, 2^40] vs f64 within K*eps*sum|terms|, refract on both sides of total internal reflection, angles vs the atan2 form within A + K*eps/max(sin, sqrt eps); layer 3: every vector with lanes from the special lattice, classified normal / fallback / slack from the exactly evaluated length; non-trivial = operands not all zero");
    geom!(rep, Vec2, f32, 2, EPS32, cross = no, perp = yes, angle = two, f32_special, f32_small);
    geom!(rep, Vec3, f32, 3, EPS32, cross = yes, perp = no, angle = yes, f32_special, f32_small);
    geom!(rep, Vec3A, f32, 3, EPS32, cross = yes, perp = no, angle = yes, f32_special, f32_small);
    geom!(rep, Vec4, f32, 4, EPS32, cross = no, perp = no, angle = no, f32_special, f32_small);
    geom!(rep, DVec2, f64, 2, EPS64, cross = no, perp = yes, angle = two, f64_special, f64_small);
    geom!(rep, DVec3, f64, 3, EPS64, cross = yes, perp = no, angle = yes, f64_special, f64_small);
    geom!(rep, DVec4, f64, 4, EPS64, cross = no, perp = no, angle = no, f64_special, f64_small);
    rep.sample(json!({"space": "Vec3A/envelope", "a": [1, -2, 3], "b": "-a*(1+2^-20) + 2^-10*w (nearly anti-parallel), scales (2^-13, 2^13)", "ops": "dot, cross, length*, distance*, project/reject, reflect, refract x 6 eta, angle_between"}));
    rep.sample(json!({"space": "Vec3/normalize family", "v": [1e-20, -0.0, 1e-20], "class": "slack (squared length subnormal): only finiteness of the checked forms is demanded"}));
    rep.sample(json!({"space": "DVec2/exact-int", "a": [-2, 1], "b": [2, 2], "ops": "dot, perp_dot, rotate, lerp(s=-1,0,1,2), reflect, midpoint"}));
    std::process::exit(rep.finish());
}
