//! C18 — only documented panics occur and no access goes out of bounds (E1 + E4).
//! (a) totality: every public inherent function of the float vector / quaternion / matrix / affine
//!     types (list generated from the rustdoc JSON of the tree) x the full product of shape alphabets
//!     in every argument position, under catch_unwind: nothing may panic.
//! (b) memory: all *_slice functions x slice lengths 0..N+4 on exactly-sized heap buffers between
//!     canary allocations; all indices 0..N+2 and usize::MAX; conversions of the SIMD-backed types.
//!     The same binary is run under AddressSanitizer (config `asan`).
#![allow(clippy::all)]
#![allow(deprecated, unused_mut, unused_variables)]
use glam::*;
use harness::flat::*;
use harness::rep::*;
use harness::shapes::Shapes;
use harness::catch;
use serde_json::json;

#[cfg(not(feature = "scalar"))]
include!("../generated/c18_table.rs");
#[cfg(feature = "scalar")]
include!("../generated/c18_table_scalar.rs");

fn canary() -> Box<[u8]> {
    vec![0xA5u8; 64].into_boxed_slice()
}
fn canary_ok(c: &[u8]) -> bool {
    c.iter().all(|b| *b == 0xA5)
}

/// slice functions of one type. N = element count.
macro_rules! slices {
    ($rep:ident, $T:ident, $S:ident, $N:expr, $from:ident, $write:ident, $arr:ident) => {{
        let tn = stringify!($T);
        let asan = $rep.args.cfg.starts_with("asan");
        $rep.sweep(&format!("{tn}/{}+{}/lengths 0..N+4 on exact-size heap buffers", stringify!($from), stringify!($write)), ($N + 5) as u64, |idx, acc| {
            let len = idx as usize;
            let vals: Vec<$S> = (0..len).map(|i| <$S as Sc>::fin(i + 1)).collect();
            // read side: exactly-sized boxed slice between two canary allocations
            let c1 = canary();
            let buf: Box<[$S]> = vals.clone().into_boxed_slice();
            let c2 = canary();
            let r = catch(|| <$T>::$from(&buf));
            acc.eval(true, r.is_ok() as u64 | (len as u64) << 1);
            match (&r, len >= $N) {
                (Ok(v), true) => {
                    let got = v.$arr();
                    let flat: Vec<$S> = got.iter().copied().collect();
                    if !bits_eq(&flat, &vals[..$N]) { acc.fail(&format!("{tn}::{}", stringify!($from)), format!("len={len}: read {:?}, want the first {} elements {:?}", flat, $N, &vals[..$N])); }
                }
                (Err(_), false) => {}
                (Ok(_), false) => acc.fail(&format!("{tn}::{}", stringify!($from)), format!("len={len} < {}: did not panic", $N)),
                (Err(e), true) => acc.fail(&format!("{tn}::{}", stringify!($from)), format!("len={len} >= {}: panicked: {e}", $N)),
            }
            // write side. Under AddressSanitizer the destination is an exactly-sized heap allocation (any
            // byte outside it is reported by the sanitizer); otherwise it is carved out of a larger arena
            // with guard zones, so that a store beyond the slice is observed instead of corrupting the heap
            let src = <$T>::$from(&(0..$N).map(|i| <$S as Sc>::fin(i + 40)).collect::<Vec<_>>());
            const G: usize = 16;
            let guard = <$S as Sc>::fin(77);
            let c3 = canary();
            let (r, out, guards_ok): (Result<(), String>, Vec<$S>, bool) = if asan {
                let mut out: Box<[$S]> = vec![<$S as Sc>::fin(99); len].into_boxed_slice();
                let r = catch(|| { src.$write(&mut out); });
                (r, out.to_vec(), true)
            } else {
                let mut arena: Vec<$S> = vec![guard; len + 2 * G];
                for x in &mut arena[G..G + len] { *x = <$S as Sc>::fin(99); }
                let r = catch(|| { src.$write(&mut arena[G..G + len]); });
                let ok = arena[..G].iter().chain(arena[G + len..].iter()).all(|x| x.bits() == guard.bits());
                (r, arena[G..G + len].to_vec(), ok)
            };
            acc.eval(true, r.is_ok() as u64 | (len as u64) << 1 | 1 << 20);
            if !guards_ok { acc.fail(&format!("{tn}::{}", stringify!($write)), format!("len={len}: wrote outside the destination slice")); }
            match (&r, len >= $N) {
                (Ok(_), true) => {
                    let want: Vec<$S> = (0..len).map(|i| if i < $N { <$S as Sc>::fin(i + 40) } else { <$S as Sc>::fin(99) }).collect();
                    if !bits_eq(&out, &want) { acc.fail(&format!("{tn}::{}", stringify!($write)), format!("len={len}: buffer {:?}, want {:?} (first {} written, rest untouched)", out, want, $N)); }
                }
                (Err(_), false) => {
                    // in-bounds prefix writes before the panic are tolerated (safe code)
                }
                (Ok(_), false) => acc.fail(&format!("{tn}::{}", stringify!($write)), format!("len={len} < {}: did not panic", $N)),
                (Err(e), true) => acc.fail(&format!("{tn}::{}", stringify!($write)), format!("len={len} >= {}: panicked: {e}", $N)),
            }
            if !(canary_ok(&c1) && canary_ok(&c2) && canary_ok(&c3)) { acc.fail(&format!("{tn}::slice functions"), format!("len={len}: a neighbouring allocation was modified")); }
        });
    }};
}

macro_rules! indices {
    ($rep:ident, $T:ident, $N:expr, [$(($name:literal, $call:expr)),*]) => {{
        let tn = stringify!($T);
        // 0..N+2, usize::MAX and the indices at which index arithmetic (i*N, i+k, casts to u32/i32) wraps
        const HUGE: [usize; 9] = [usize::MAX, usize::MAX - 1, 1 << 63, (1 << 63) + 1, (1 << 62) + 1, 1 << 32, (1 << 32) + 1, 1 << 31, (usize::MAX / 3) + 1];
        $rep.sweep(&format!("{tn}/index arguments 0..N+2, usize::MAX and wrap-around indices"), ($N + 3 + HUGE.len()) as u64, |idx, acc| {
            let i: usize = if idx as usize >= $N + 3 { HUGE[idx as usize - ($N + 3)] } else { idx as usize };
            let sh = <$T as Shapes>::shapes(); let v = sh[5 % sh.len()].clone();
            $(
                let f: fn(&$T, usize) = $call;
                let r = catch(|| f(&v, i));
                acc.eval(true, r.is_ok() as u64 | (idx << 1));
                if r.is_ok() != (i < $N) { acc.fail(&format!("{tn}::{}", $name), format!("index {i}: {} (valid indices are 0..{})", if r.is_ok() { "returned" } else { "panicked" }, $N)); }
            )*
        });
    }};
}

/// run by a child process (`--misaligned-probe`): every *_slice function on sub-slices that start 4, 8
/// and 12 bytes (f64: 8, 24) past a 16-byte boundary; returns the number of wrong results. An aligned
/// whole-register load or store where an unaligned one is needed faults here, which the parent observes
/// as the death of the child instead of dying itself.
fn misaligned_probe() -> u32 {
    #[repr(align(32))]
    struct A32([f32; 40]);
    #[repr(align(32))]
    struct A64([f64; 40]);
    let mut bad = 0u32;
    macro_rules! probe {
        ($A:ident, $S:ident, $(($T:ident, $N:expr, $from:ident, $write:ident, $arr:ident)),*) => {$(
            for off in 1..4usize {
                let mut src = $A([0.0; 40]);
                for i in 0..40 { src.0[i] = (i as $S) * 1.5 + 0.25; }
                let v = <$T>::$from(std::hint::black_box(&src.0[off..off + $N]));
                let got = v.$arr();
                for i in 0..$N { if got[i] != src.0[off + i] { bad += 1; } }
                let mut dst = $A([-1.0; 40]);
                v.$write(std::hint::black_box(&mut dst.0[off..off + $N]));
                for i in 0..40 { let w = if i >= off && i < off + $N { src.0[i] } else { -1.0 }; if dst.0[i] != w { bad += 1; } }
            }
        )*};
    }
    probe!(A32, f32, (Vec2, 2, from_slice, write_to_slice, to_array), (Vec3, 3, from_slice, write_to_slice, to_array), (Vec3A, 3, from_slice, write_to_slice, to_array), (Vec4, 4, from_slice, write_to_slice, to_array),
        (Quat, 4, from_slice, write_to_slice, to_array), (Mat2, 4, from_cols_slice, write_cols_to_slice, to_cols_array), (Mat3, 9, from_cols_slice, write_cols_to_slice, to_cols_array), (Mat3A, 9, from_cols_slice, write_cols_to_slice, to_cols_array),
        (Mat4, 16, from_cols_slice, write_cols_to_slice, to_cols_array), (Affine2, 6, from_cols_slice, write_cols_to_slice, to_cols_array), (Affine3A, 12, from_cols_slice, write_cols_to_slice, to_cols_array));
    probe!(A64, f64, (DVec2, 2, from_slice, write_to_slice, to_array), (DVec3, 3, from_slice, write_to_slice, to_array), (DVec4, 4, from_slice, write_to_slice, to_array), (DQuat, 4, from_slice, write_to_slice, to_array),
        (DMat2, 4, from_cols_slice, write_cols_to_slice, to_cols_array), (DMat3, 9, from_cols_slice, write_cols_to_slice, to_cols_array), (DMat4, 16, from_cols_slice, write_cols_to_slice, to_cols_array),
        (DAffine2, 6, from_cols_slice, write_cols_to_slice, to_cols_array), (DAffine3, 12, from_cols_slice, write_cols_to_slice, to_cols_array));
    // array / reference conversions of the SIMD-backed types from under-aligned storage
    let src = A32(core::array::from_fn(|i| i as f32 + 0.5));
    for off in 1..4usize {
        let a4: &[f32; 4] = (&src.0[off..off + 4]).try_into().unwrap();
        let a3: &[f32; 3] = (&src.0[off..off + 3]).try_into().unwrap();
        if Vec4::from_array(*std::hint::black_box(a4)).to_array() != *a4 { bad += 1; }
        if Vec3A::from_array(*std::hint::black_box(a3)).to_array() != *a3 { bad += 1; }
        if Quat::from_array(*std::hint::black_box(a4)).to_array() != *a4 { bad += 1; }
        let a16: &[f32; 16] = (&src.0[off..off + 16]).try_into().unwrap();
        if Mat4::from_cols_array(std::hint::black_box(a16)).to_cols_array() != *a16 { bad += 1; }
        let a9: &[f32; 9] = (&src.0[off..off + 9]).try_into().unwrap();
        if Mat3A::from_cols_array(std::hint::black_box(a9)).to_cols_array() != *a9 { bad += 1; }
    }
    bad
}

fn hand_written_generic(rep: &mut Report) {
    // the closure-taking `map` methods (the only generic inherent functions)
    macro_rules! maps {
        ($($T:ident),*) => {$(
            rep.sweep(concat!(stringify!($T), "::map/shapes"), <$T as Shapes>::shapes().len() as u64, |idx, acc| {
                let v = <$T as Shapes>::shapes()[idx as usize].clone();
                let r = catch(|| v.map(|x| x * 2.0 + 1.0));
                acc.eval(true, idx);
                if r.is_err() { acc.fail(concat!(stringify!($T), "::map"), format!("panicked on {:?}", v)); }
            });
        )*};
    }
    maps!(Vec2, Vec3, Vec3A, Vec4, DVec2, DVec3, DVec4);
}

fn conversions(rep: &mut Report) {
    // all From/Into/AsRef/Deref conversions of the SIMD-backed types on heap-allocated values
    // (the interesting verdict comes from the asan / miri runs of exactly this code)
    rep.sweep("SIMD-backed types/From,Into,AsRef,AsMut,Deref on boxed values", 20, |idx, acc| {
        let v3 = Box::new(<Vec3A as Shapes>::shapes()[idx as usize % 20].clone());
        let v4 = Box::new(<Vec4 as Shapes>::shapes()[idx as usize % 20].clone());
        let q = Box::new(<Quat as Shapes>::shapes()[idx as usize % 12].clone());
        let m2 = Box::new(<Mat2 as Shapes>::shapes()[idx as usize % 12].clone());
        let m3 = Box::new(<Mat3A as Shapes>::shapes()[idx as usize % 12].clone());
        let m4 = Box::new(<Mat4 as Shapes>::shapes()[idx as usize % 12].clone());
        let mut h = 0u64;
        let mut mix = |x: f32| h = hmix(h, x.to_bits() as u64);
        let a3: [f32; 3] = (*v3).into();
        let t3: (f32, f32, f32) = (*v3).into();
        let p3: Vec3 = (*v3).into();
        let r3: &[f32; 3] = <Vec3A as AsRef<[f32; 3]>>::as_ref(&v3);
        for x in a3.iter().chain(r3.iter()) { mix(*x); }
        mix(t3.2); mix(p3.z); mix(v3.x); mix(v3.z); mix(v3[2]);
        let mut w3 = *v3;
        { let m: &mut [f32; 3] = w3.as_mut(); m[2] = 5.0; }
        w3.y = 6.0; w3[0] = 7.0;
        if w3.to_array() != [7.0, 6.0, 5.0] { acc.fail("Vec3A::mutable access paths", format!("got {:?}", w3.to_array())); }
        let a4: [f32; 4] = (*v4).into();
        let r4: &[f32; 4] = <Vec4 as AsRef<[f32; 4]>>::as_ref(&v4);
        for x in a4.iter().chain(r4.iter()) { mix(*x); }
        mix(v4.w); mix(v4[3]);
        let aq: [f32; 4] = (*q).into();
        let rq: &[f32; 4] = <Quat as AsRef<[f32; 4]>>::as_ref(&q);
        for x in aq.iter().chain(rq.iter()) { mix(*x); }
        mix(q.w);
        let qv: Vec4 = (*q).into();
        mix(qv.w);
        let rm2: &[f32; 4] = <Mat2 as AsRef<[f32; 4]>>::as_ref(&m2);
        for x in rm2.iter().chain(m2.to_cols_array().iter()) { mix(*x); }
        mix(m2.y_axis.y); mix(m2.col(1).x);
        for x in m3.to_cols_array().iter() { mix(*x); }
        mix(m3.z_axis.z); mix(Mat3::from(*m3).z_axis.z);
        let rm4: &[f32; 16] = <Mat4 as AsRef<[f32; 16]>>::as_ref(&m4);
        for x in rm4.iter() { mix(*x); }
        mix(m4.w_axis.w);
        let e3 = v3.extend(1.0); mix(e3.w);
        let f3 = Vec3A::from_vec4(*v4); mix(f3.z);
        acc.eval(true, h);
    });
}

fn main() {
    if std::env::args().any(|a| a == "--misaligned-probe") {
        let bad = misaligned_probe();
        println!("misaligned-probe wrong={bad}");
        std::process::exit(if bad == 0 { 0 } else { 3 });
    }
    let mut rep = Report::new("C18", "exploration");
    silence_panics();
    rep.rule("(a) totality: for each of the public inherent functions of the 20 float vector/quaternion/matrix/affine types (generated from the rustdoc JSON of the tree) the full product of the shape alphabets (vectors: 22 shapes incl. zero, -0, subnormal, tiny, huge, MAX, +-inf, NaN lanes, mixtures; scalars: 16; matrices/quaternions/affines: 12; EulerRot: 24; indices: valid ones; slices: long enough) under catch_unwind - no panic allowed; one evaluation = one call; (b) *_slice functions on exact-size heap buffers of every length 0..N+4 between canary allocations (panic iff too short, exactly the first N elements read/written, tail untouched), every index 0..N+2 and usize::MAX (panic iff out of range), conversions of the SIMD-backed types on boxed values; all cases count as non-trivial");
    // under Miri only the pointer-cast / slice / index part (b) is interpreted (the totality product is
    // 1e8 calls); totality is then an empty table
    let miri = rep.args.cfg == "miri";
    // (a)
    let table: &[(&str, fn(&mut Acc))] = if miri { &[] } else { TOTALITY };
    rep.extra.insert("functions".into(), json!(table.len()));
    rep.extra.insert("uncovered_api".into(), json!(UNCOVERED));
    let per_fn: Vec<(String, u64, u64)> = if miri {
        vec![]
    } else {
        use rayon::prelude::*;
        table
            .par_iter()
            .map(|(site, f)| {
                let mut r = Report::new("C18", "exploration");
                let mut out = (site.to_string(), 0, 0);
                r.sweep_seq(site, 1, |_, acc| {
                    f(acc);
                    out.1 = acc.evals;
                    out.2 = acc.nviol;
                });
                (out.0, out.1, out.2, r)
            })
            .collect::<Vec<_>>()
            .into_iter()
            .map(|(a, b, c, r)| {
                for v in r.violations {
                    rep.violations.push(v);
                }
                (a, b, c)
            })
            .collect()
    };
    let total: u64 = per_fn.iter().map(|x| x.1).sum();
    rep.evals += total;
    rep.nontriv += total;
    rep.spaces.push(json!({"space": "totality/all public inherent functions x shape products", "functions": per_fn.len(), "evaluations": total, "exhaustive": true,
        "largest": per_fn.iter().max_by_key(|x| x.1).map(|x| json!({"fn": x.0, "calls": x.1})),
        "violations": per_fn.iter().map(|x| x.2).sum::<u64>()}));
    if !miri {
        hand_written_generic(&mut rep);
    }
    // (b)
    slices!(rep, Vec2, f32, 2, from_slice, write_to_slice, to_array);
    slices!(rep, Vec3, f32, 3, from_slice, write_to_slice, to_array);
    slices!(rep, Vec3A, f32, 3, from_slice, write_to_slice, to_array);
    slices!(rep, Vec4, f32, 4, from_slice, write_to_slice, to_array);
    slices!(rep, DVec2, f64, 2, from_slice, write_to_slice, to_array);
    slices!(rep, DVec3, f64, 3, from_slice, write_to_slice, to_array);
    slices!(rep, DVec4, f64, 4, from_slice, write_to_slice, to_array);
    slices!(rep, Quat, f32, 4, from_slice, write_to_slice, to_array);
    slices!(rep, DQuat, f64, 4, from_slice, write_to_slice, to_array);
    slices!(rep, Mat2, f32, 4, from_cols_slice, write_cols_to_slice, to_cols_array);
    slices!(rep, Mat3, f32, 9, from_cols_slice, write_cols_to_slice, to_cols_array);
    slices!(rep, Mat3A, f32, 9, from_cols_slice, write_cols_to_slice, to_cols_array);
    slices!(rep, Mat4, f32, 16, from_cols_slice, write_cols_to_slice, to_cols_array);
    slices!(rep, DMat2, f64, 4, from_cols_slice, write_cols_to_slice, to_cols_array);
    slices!(rep, DMat3, f64, 9, from_cols_slice, write_cols_to_slice, to_cols_array);
    slices!(rep, DMat4, f64, 16, from_cols_slice, write_cols_to_slice, to_cols_array);
    slices!(rep, Affine2, f32, 6, from_cols_slice, write_cols_to_slice, to_cols_array);
    slices!(rep, Affine3A, f32, 12, from_cols_slice, write_cols_to_slice, to_cols_array);
    slices!(rep, DAffine2, f64, 6, from_cols_slice, write_cols_to_slice, to_cols_array);
    slices!(rep, DAffine3, f64, 12, from_cols_slice, write_cols_to_slice, to_cols_array);
    macro_rules! vec_idx {
        ($($T:ident, $N:expr);*) => {$( indices!(rep, $T, $N, [("index", |v, i| { let _ = v[i]; }), ("index_mut", |v, i| { let mut w = *v; w[i] = w[0]; })]); )*};
    }
    vec_idx!(Vec2, 2; Vec3, 3; Vec3A, 3; Vec4, 4; DVec2, 2; DVec3, 3; DVec4, 4);
    macro_rules! mat_idx {
        ($($T:ident, $N:expr);*) => {$( indices!(rep, $T, $N, [("col", |m, i| { let _ = m.col(i); }), ("row", |m, i| { let _ = m.row(i); }), ("col_mut", |m, i| { let mut w = *m; let _ = w.col_mut(i); })]); )*};
    }
    mat_idx!(Mat2, 2; Mat3, 3; Mat3A, 3; Mat4, 4; DMat2, 2; DMat3, 3; DMat4, 4);
    indices!(rep, Mat3, 3, [("Mat2::from_mat3_minor(i, 0)", |m, i| { let _ = Mat2::from_mat3_minor(*m, i, 0); }), ("Mat2::from_mat3_minor(0, j)", |m, i| { let _ = Mat2::from_mat3_minor(*m, 0, i); })]);
    indices!(rep, Mat3A, 3, [("Mat2::from_mat3a_minor(i, 0)", |m, i| { let _ = Mat2::from_mat3a_minor(*m, i, 0); }), ("Mat2::from_mat3a_minor(0, j)", |m, i| { let _ = Mat2::from_mat3a_minor(*m, 0, i); })]);
    indices!(rep, Mat4, 4, [("Mat3::from_mat4_minor(i, 0)", |m, i| { let _ = Mat3::from_mat4_minor(*m, i, 0); }), ("Mat3A::from_mat4_minor(0, j)", |m, i| { let _ = Mat3A::from_mat4_minor(*m, 0, i); })]);
    indices!(rep, DMat3, 3, [("DMat2::from_mat3_minor(i, 0)", |m, i| { let _ = DMat2::from_mat3_minor(*m, i, 0); })]);
    indices!(rep, DMat4, 4, [("DMat3::from_mat4_minor(0, j)", |m, i| { let _ = DMat3::from_mat4_minor(*m, 0, i); })]);
    macro_rules! mask_idx {
        ($($T:ident, $N:expr);*) => {$( indices!(rep, $T, $N, [("test", |m, i| { let _ = m.test(i); }), ("set", |m, i| { let mut w = *m; w.set(i, true); })]); )*};
    }
    mask_idx!(BVec2, 2; BVec3, 3; BVec4, 4; BVec3A, 3; BVec4A, 4);
    conversions(&mut rep);
    // slices and arrays that do not start on a 16-byte boundary: in a child process, so that a fault
    // (an aligned whole-register access where an unaligned one is needed) is observed, not suffered
    if rep.wanted_pub("slice functions on under-aligned storage") {
        let r = if miri { Ok((misaligned_probe(), String::new())) } else {
            std::process::Command::new(std::env::current_exe().expect("own path")).arg("--misaligned-probe").output().map(|o| {
                let wrong = if o.status.success() { 0 } else if o.status.code() == Some(3) { 1 } else { u32::MAX };
                (wrong, format!("status {:?} stdout {:?} stderr {:?}", o.status, String::from_utf8_lossy(&o.stdout).trim().to_string(), String::from_utf8_lossy(&o.stderr).chars().take(300).collect::<String>()))
            })
        };
        rep.evals += 1; rep.nontriv += 1;
        match r {
            Ok((0, _)) => rep.spaces.push(json!({"space": "slice functions on under-aligned storage/20 types x 3 offsets + array conversions (child process)", "size": 1, "evaluations": 1, "exhaustive": true, "violations": 0})),
            Ok((u32::MAX, d)) => rep.violation("slice functions on under-aligned storage", 0, "slice / array functions on storage that does not start on a 16-byte boundary", format!("the probe process died: {d}")),
            Ok((_, d)) => rep.violation("slice functions on under-aligned storage", 0, "slice / array functions on storage that does not start on a 16-byte boundary", format!("wrong values read or written: {d}")),
            Err(e) => { eprintln!("MACHINERY: cannot start the probe process: {e}"); std::process::exit(2); }
        }
    }
    rep.sample(json!({"totality": "Vec3::rotate_towards(self, rhs, max_angle)", "args": "20 x 20 x 16 shapes, e.g. (zero, NaN-lane, -inf)", "oracle": "no panic"}));
    rep.sample(json!({"memory": "Vec3A::write_to_slice", "len": 3, "buffer": "Box<[f32]> of exactly 3 elements between canary allocations", "oracle": "3 elements written, no neighbouring byte touched (ASan: no 16-byte store)"}));
    // operator trait impls: every form agrees with the by-value form (panic parity included) and
    // Sum / Product of no, one and several elements are the folds from the identity - none may panic
    if !miri {
        harness::opforms::run(&mut rep, "fvec", harness::opforms::OPFORMS_FVEC);
        harness::opforms::run(&mut rep, "mat", harness::opforms::OPFORMS_MAT);
        harness::opforms::run(&mut rep, "quat", harness::opforms::OPFORMS_QUAT);
        harness::opforms::run(&mut rep, "affine", harness::opforms::OPFORMS_AFFINE);
    }
    std::process::exit(rep.finish());
}
