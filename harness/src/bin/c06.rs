//! C06 — column-vector, column-major conventions hold across every accessor and product (E1).
//! Entries carry pairwise-distinct tags; the oracle is index arithmetic: element k of the
//! column-major array is (r = k mod R, c = k div R). Mode bits for data movement, exact-int for
//! the product laws.
#![allow(clippy::all)]
use glam::*;
use harness::flat::*;
use harness::lat::{digits, phi};
use harness::rep::*;
use harness::catch;
use serde_json::json;

fn tags<S: Sc>(n: usize, round: usize) -> Vec<S> {
    let v: Vec<S> = match round {
        0..=2 => (0..n).map(|i| S::tag(i + round * 17)).collect(),
        3 => (0..n).map(|i| S::fin(i)).collect(),
        _ => (0..n).map(|i| S::fin(n * 2 - i)).collect(),
    };
    for i in 0..n {
        for j in 0..i {
            assert!(v[i].bits() != v[j].bits(), "tags must be pairwise distinct");
        }
    }
    v
}
const ROUNDS: u64 = 5;

macro_rules! chk {
    ($acc:ident, $tn:expr, $site:expr, $got:expr, $want:expr) => {{
        let g: Vec<_> = $got;
        let w: Vec<_> = $want;
        $acc.eval(true, g.iter().fold(0u64, |h, s| hmix(h, s.bits())));
        if !bits_eq(&g, &w) {
            $acc.fail(&format!("{}::{}", $tn, $site), format!("got={} want={}", show(&g), show(&w)));
        }
    }};
}

/// square matrices. R = C = $N; $Col = column vector type; $Row = type returned by row()
macro_rules! mat_sq {
    ($rep:ident, $T:ident, $S:ident, $N:tt, $Col:ident, [$($ax:ident),*], $has_asref:tt) => {{
        const N: usize = $N;
        const NN: usize = N * N;
        let tn = stringify!($T);
        $rep.sweep(&format!("{tn}/accessors/tag rounds"), ROUNDS, |idx, acc| {
            let a: Vec<$S> = tags::<$S>(NN, idx as usize);
            let mut arr = [<$S as Sc>::zero(); NN];
            arr.copy_from_slice(&a);
            let m = <$T>::from_cols_array(&arr);
            chk!(acc, tn, "from_cols_array/to_cols_array", m.to_cols_array().to_vec(), a.clone());
            let d2 = m.to_cols_array_2d();
            chk!(acc, tn, "to_cols_array_2d", (0..NN).map(|k| d2[k / N][k % N]).collect(), a.clone());
            let mut in2 = [[<$S as Sc>::zero(); N]; N];
            for k in 0..NN { in2[k / N][k % N] = a[k]; }
            chk!(acc, tn, "from_cols_array_2d", <$T>::from_cols_array_2d(&in2).to_cols_array().to_vec(), a.clone());
            let cols: Vec<$Col> = (0..N).map(|c| <$Col as Flat>::build(&a[c * N..(c + 1) * N])).collect();
            let mut it = cols.iter().copied();
            let mc = <$T>::from_cols($({ let _ = stringify!($ax); it.next().unwrap() }),*);
            chk!(acc, tn, "from_cols", mc.to_cols_array().to_vec(), a.clone());
            // slices
            let mut longer = a.clone();
            longer.push(<$S as Sc>::fin(60));
            longer.push(<$S as Sc>::fin(61));
            chk!(acc, tn, "from_cols_slice(exact)", <$T>::from_cols_slice(&a).to_cols_array().to_vec(), a.clone());
            chk!(acc, tn, "from_cols_slice(longer)", <$T>::from_cols_slice(&longer).to_cols_array().to_vec(), a.clone());
            let mut buf = vec![<$S as Sc>::fin(62); NN + 3];
            m.write_cols_to_slice(&mut buf);
            let mut want = a.clone();
            want.extend_from_slice(&[<$S as Sc>::fin(62); 3]);
            chk!(acc, tn, "write_cols_to_slice(longer, tail untouched)", buf, want);
            let mut buf = vec![<$S as Sc>::fin(62); NN];
            m.write_cols_to_slice(&mut buf);
            chk!(acc, tn, "write_cols_to_slice(exact)", buf, a.clone());
            // col / row / axis fields / col_mut
            for c in 0..N {
                chk!(acc, tn, "col", m.col(c).lanes(), a[c * N..(c + 1) * N].to_vec());
            }
            for r in 0..N {
                chk!(acc, tn, "row", m.row(r).lanes(), (0..N).map(|c| a[c * N + r]).collect());
            }
            let axes: Vec<$Col> = vec![$(m.$ax),*];
            for c in 0..N {
                chk!(acc, tn, "axis field", axes[c].lanes(), a[c * N..(c + 1) * N].to_vec());
            }
            for c in 0..N {
                let mut mm = m;
                let newcol: Vec<$S> = (0..N).map(|i| <$S as Sc>::fin(70 + i)).collect();
                *mm.col_mut(c) = <$Col as Flat>::build(&newcol);
                let mut want = a.clone();
                want[c * N..(c + 1) * N].copy_from_slice(&newcol);
                chk!(acc, tn, "col_mut", mm.to_cols_array().to_vec(), want);
            }
            $( { let _ = stringify!($ax); } )*
            // axis field write through DerefMut / field
            {
                let mut mm = m;
                let newcol: Vec<$S> = (0..N).map(|i| <$S as Sc>::fin(80 + i)).collect();
                mat_sq!(@first mm, <$Col as Flat>::build(&newcol), $($ax),*);
                let mut want = a.clone();
                want[..N].copy_from_slice(&newcol);
                chk!(acc, tn, "axis field write", mm.to_cols_array().to_vec(), want);
            }
            chk!(acc, tn, "transpose", m.transpose().to_cols_array().to_vec(), (0..NN).map(|k| a[(k % N) * N + k / N]).collect());
            // from_diagonal: argument on the diagonal, +0 elsewhere
            {
                let m = <$T>::from_diagonal(<<$T as HasDiag>::D as Flat>::build(&a[..N]));
                let mut want = vec![<$S as Sc>::zero(); NN];
                for i in 0..N { want[i * N + i] = a[i]; }
                chk!(acc, tn, "from_diagonal", m.to_cols_array().to_vec(), want);
            }
            mat_sq!(@asref $has_asref, acc, tn, $T, $S, m, a, NN);
            // indices out of range must panic
            for i in [N, N + 1, N + 2, usize::MAX] {
                acc.eval(true, i as u64);
                if catch(|| m.col(i)).is_ok() { acc.fail(&format!("{tn}::col"), format!("col({i}) did not panic")); }
                if catch(|| m.row(i)).is_ok() { acc.fail(&format!("{tn}::row"), format!("row({i}) did not panic")); }
                if catch(|| { let mut mm = m; let _ = mm.col_mut(i); }).is_ok() { acc.fail(&format!("{tn}::col_mut"), format!("col_mut({i}) did not panic")); }
            }
        });
    }};
    (@first $mm:ident, $v:expr, $ax0:ident $(, $rest:ident)*) => { $mm.$ax0 = $v; };
    (@asref yes, $acc:ident, $tn:ident, $T:ident, $S:ident, $m:ident, $a:ident, $NN:ident) => {{
        let r: &[$S; $NN] = $m.as_ref();
        chk!($acc, $tn, "AsRef", r.to_vec(), $a.clone());
        for k in 0..$NN {
            let mut mm = $m;
            let w: &mut [$S; $NN] = mm.as_mut();
            w[k] = <$S as Sc>::fin(90);
            let mut want = $a.clone();
            want[k] = <$S as Sc>::fin(90);
            chk!($acc, $tn, "AsMut", mm.to_cols_array().to_vec(), want);
        }
    }};
    (@asref no, $acc:ident, $tn:ident, $T:ident, $S:ident, $m:ident, $a:ident, $NN:ident) => {{}};
}
trait HasDiag {
    type D: Flat;
}
macro_rules! diag {
    ($($T:ident => $D:ident),*) => {$( impl HasDiag for $T { type D = $D; } )*};
}
diag!(Mat2 => Vec2, Mat3 => Vec3, Mat3A => Vec3, Mat4 => Vec4, DMat2 => DVec2, DMat3 => DVec3, DMat4 => DVec4);

/// affine types: C = R + 1 columns of R rows
macro_rules! affine {
    ($rep:ident, $T:ident, $S:ident, $R:tt, $Col:ident, $P:ident, $Lin:ident, $lin:ident, [$($ax:ident),*]) => {{
        const R: usize = $R;
        const C: usize = R + 1;
        const RC: usize = R * C;
        let tn = stringify!($T);
        $rep.sweep(&format!("{tn}/accessors/tag rounds"), ROUNDS, |idx, acc| {
            let a: Vec<$S> = tags::<$S>(RC, idx as usize);
            let mut arr = [<$S as Sc>::zero(); RC];
            arr.copy_from_slice(&a);
            let m = <$T>::from_cols_array(&arr);
            chk!(acc, tn, "from_cols_array/to_cols_array", m.to_cols_array().to_vec(), a.clone());
            let d2 = m.to_cols_array_2d();
            chk!(acc, tn, "to_cols_array_2d", (0..RC).map(|k| d2[k / R][k % R]).collect(), a.clone());
            let mut in2 = [[<$S as Sc>::zero(); R]; C];
            for k in 0..RC { in2[k / R][k % R] = a[k]; }
            chk!(acc, tn, "from_cols_array_2d", <$T>::from_cols_array_2d(&in2).to_cols_array().to_vec(), a.clone());
            let cols: Vec<$Col> = (0..C).map(|c| <$Col as Flat>::build(&a[c * R..(c + 1) * R])).collect();
            let mut it = cols.iter().copied();
            let mc = <$T>::from_cols($({ let _ = stringify!($ax); it.next().unwrap() }),*);
            chk!(acc, tn, "from_cols", mc.to_cols_array().to_vec(), a.clone());
            let mut longer = a.clone();
            longer.push(<$S as Sc>::fin(60));
            chk!(acc, tn, "from_cols_slice(exact)", <$T>::from_cols_slice(&a).to_cols_array().to_vec(), a.clone());
            chk!(acc, tn, "from_cols_slice(longer)", <$T>::from_cols_slice(&longer).to_cols_array().to_vec(), a.clone());
            let mut buf = vec![<$S as Sc>::fin(62); RC + 3];
            m.write_cols_to_slice(&mut buf);
            let mut want = a.clone();
            want.extend_from_slice(&[<$S as Sc>::fin(62); 3]);
            chk!(acc, tn, "write_cols_to_slice(longer, tail untouched)", buf, want);
            // linear part in the leading columns, translation in the last
            chk!(acc, tn, "linear part", m.$lin.to_cols_array().to_vec(), a[..R * R].to_vec());
            chk!(acc, tn, "translation", m.translation.lanes(), a[R * R..].to_vec());
            let axes: Vec<$Col> = vec![$(m.$ax),*];
            for c in 0..C {
                chk!(acc, tn, "axis field (Deref)", axes[c].lanes(), a[c * R..(c + 1) * R].to_vec());
            }
            {
                let mut mm = m;
                let newcol: Vec<$S> = (0..R).map(|i| <$S as Sc>::fin(80 + i)).collect();
                affine!(@last mm, <$Col as Flat>::build(&newcol), $($ax),*);
                let mut want = a.clone();
                want[R * R..].copy_from_slice(&newcol);
                chk!(acc, tn, "w_axis write (DerefMut) changes exactly the translation", mm.to_cols_array().to_vec(), want);
            }
            let _ = <$P as Flat>::N;
        });
        // product laws on small integer grids (exact): transform_point = L*p + t, transform_vector = L*p
        let g: [f64; 5] = [-2.0, -1.0, 0.0, 1.0, 2.0];
        $rep.sweep(&format!("{tn}/transform laws/integer grid"), 5u64.pow((R + 1) as u32) * 64, |idx, acc| {
            // matrix entries derived from the index (dense small integers), point from the grid
            let k = idx / 5u64.pow((R + 1) as u32);
            let pi = idx % 5u64.pow((R + 1) as u32);
            let mut arr = [<$S as Sc>::zero(); RC];
            for e in 0..RC {
                arr[e] = <$S as Sc>::of((((k as usize * 7 + e * 5 + (k as usize >> 3) * e) % 7) as f64) - 3.0);
            }
            let m = <$T>::from_cols_array(&arr);
            let mut p = [0.0f64; R];
            let mut q = pi;
            for i in 0..R { p[i] = g[(q % 5) as usize]; q /= 5; }
            let other_scale = g[(q % 5) as usize];
            let pv: Vec<$S> = p.iter().map(|x| <$S as Sc>::of(*x)).collect();
            let mut wp = vec![0.0f64; R];
            let mut wv = vec![0.0f64; R];
            for r in 0..R {
                for c in 0..R { wv[r] += arr[c * R + r].f() * p[c]; }
                wp[r] = wv[r] + arr[R * R + r].f();
            }
            let gp = affine!(@tp $R, m, <$P as Flat>::build(&pv));
            let gv = affine!(@tv $R, m, <$P as Flat>::build(&pv));
            acc.eval(p.iter().any(|x| *x != 0.0), gp.iter().fold(0, |h, s| hmix(h, s.bits())));
            if !(0..R).all(|i| gp[i].f() == wp[i]) { acc.fail(&format!("{tn}::transform_point"), format!("m={:?} p={:?} got={:?} want={:?}", arr, p, gp, wp)); }
            if !(0..R).all(|i| gv[i].f() == wv[i]) { acc.fail(&format!("{tn}::transform_vector"), format!("m={:?} p={:?} got={:?} want={:?}", arr, p, gv, wv)); }
            // transform_vector ignores the translation: whatever the last column holds (infinities, NaN,
            // huge values), the result is bit-for-bit the one obtained with a zero translation
            {
                let poison = [<$S as Sc>::of(f64::INFINITY), <$S as Sc>::of(f64::NAN), <$S as Sc>::of(f64::NEG_INFINITY), <$S as Sc>::of(1e30), <$S as Sc>::of(-0.0)];
                let mut az = arr;
                for r in 0..R { az[R * R + r] = <$S as Sc>::zero(); }
                let base = affine!(@tv $R, <$T>::from_cols_array(&az), <$P as Flat>::build(&pv));
                for s0 in 0..3 {
                    let mut ap = arr;
                    for r in 0..R { ap[R * R + r] = poison[(s0 + r * 2) % 5]; }
                    let gq = affine!(@tv $R, <$T>::from_cols_array(&ap), <$P as Flat>::build(&pv));
                    acc.eval(true, 5 + s0 as u64);
                    if !bits_eq(&gq, &base) { acc.fail(&format!("{tn}::transform_vector(ignores translation)"), format!("linear part {:?} translation {:?} v={:?}: got={:?}, with zero translation {:?}", &arr[..R * R], &ap[R * R..], p, gq, base)); }
                }
            }
            // composition: (A*B) p = A (B p), with B = A scaled
            let mut arr2 = arr;
            for e in 0..RC { arr2[e] = <$S as Sc>::of(arr[(e * 3 + 1) % RC].f() * other_scale.signum().max(-1.0) + (e % 2) as f64); }
            let b = <$T>::from_cols_array(&arr2);
            let ab = m * b;
            // the assign form is the same product
            let mut asg = m;
            asg *= b;
            acc.eval(true, 77);
            if !bits_eq(&asg.to_cols_array(), &ab.to_cols_array()) { acc.fail(&format!("{tn}::mul_assign"), format!("A *= B differs from A * B: A={:?} B={:?} got={:?} want={:?}", arr, arr2, asg.to_cols_array(), ab.to_cols_array())); }
            let l = affine!(@tp $R, ab, <$P as Flat>::build(&pv));
            let inner = affine!(@tp $R, b, <$P as Flat>::build(&pv));
            let r = affine!(@tp $R, m, <$P as Flat>::build(&inner));
            acc.eval(true, l.iter().fold(1, |h, s| hmix(h, s.bits())));
            if !(0..R).all(|i| l[i].f() == r[i].f()) { acc.fail(&format!("{tn}::mul"), format!("(A*B)p != A(Bp): A={:?} B={:?} p={:?} got={:?} want={:?}", arr, arr2, p, l, r)); }
        });
    }};
    (@last $mm:ident, $v:expr, $ax0:ident) => { $mm.$ax0 = $v; };
    (@last $mm:ident, $v:expr, $ax0:ident, $($rest:ident),+) => { affine!(@last $mm, $v, $($rest),+); };
    (@tp 2, $m:expr, $p:expr) => { $m.transform_point2($p).lanes() };
    (@tv 2, $m:expr, $p:expr) => { $m.transform_vector2($p).lanes() };
    (@tp 3, $m:expr, $p:expr) => { $m.transform_point3($p).lanes() };
    (@tv 3, $m:expr, $p:expr) => { $m.transform_vector3($p).lanes() };
}

/// product laws for square matrices on integer grids (exact): M v = sum v[c] col(c); (A B) v = A (B v)
macro_rules! mat_laws {
    ($rep:ident, $T:ident, $S:ident, $N:expr, $Col:ident) => {{
        const N: usize = $N;
        const NN: usize = N * N;
        let tn = stringify!($T);
        let g: [f64; 5] = [-2.0, -1.0, 0.0, 1.0, 2.0];
        $rep.sweep(&format!("{tn}/product laws/integer grid"), 5u64.pow(N as u32) * 256, |idx, acc| {
            let k = (idx / 5u64.pow(N as u32)) as usize;
            let mut q = idx % 5u64.pow(N as u32);
            let mut arr = [<$S as Sc>::zero(); NN];
            let mut arr2 = [<$S as Sc>::zero(); NN];
            for e in 0..NN {
                arr[e] = <$S as Sc>::of((((k * 7 + e * 5 + (k >> 3) * e) % 7) as f64) - 3.0);
                arr2[e] = <$S as Sc>::of((((k * 3 + e * e + (k >> 4) * (e + 1)) % 5) as f64) - 2.0);
            }
            let mut v = [0.0f64; N];
            for i in 0..N { v[i] = g[(q % 5) as usize]; q /= 5; }
            let vv: Vec<$S> = v.iter().map(|x| <$S as Sc>::of(*x)).collect();
            let (a, b) = (<$T>::from_cols_array(&arr), <$T>::from_cols_array(&arr2));
            let x = <$Col as Flat>::build(&vv);
            let mv = (a * x).lanes();
            let mut want = vec![0.0f64; N];
            for r in 0..N { for c in 0..N { want[r] += arr[c * N + r].f() * v[c]; } }
            acc.eval(v.iter().any(|t| *t != 0.0), mv.iter().fold(0, |h, s| hmix(h, s.bits())));
            if !(0..N).all(|i| mv[i].f() == want[i]) { acc.fail(&format!("{tn}::mul_vec"), format!("M={:?} v={:?} got={:?} want={:?}", arr, v, mv, want)); }
            let l = ((a * b) * x).lanes();
            let r = (a * (b * x)).lanes();
            acc.eval(true, l.iter().fold(1, |h, s| hmix(h, s.bits())));
            if !(0..N).all(|i| l[i].f() == r[i].f()) { acc.fail(&format!("{tn}::mul_mat"), format!("(AB)v != A(Bv): A={:?} B={:?} v={:?} got={:?} want={:?}", arr, arr2, v, l, r)); }
        });
    }};
}

/// Mat3 and Mat3A each multiply both 3-vector types: the two forms must agree bit-for-bit
fn alternate_vector_forms(rep: &mut Report) {
    rep.sweep("Mat3,Mat3A/products with the other 3-vector type/integer grid", 125 * 256, |idx, acc| {
        let k = (idx / 125) as usize;
        let mut q = idx % 125;
        let mut arr = [0.0f32; 9];
        for e in 0..9 { arr[e] = (((k * 7 + e * 5 + (k >> 3) * e) % 7) as f32) - 3.0; }
        let g = [-2.0f32, -1.0, 0.0, 1.0, 2.0];
        let mut v = [0.0f32; 3];
        for i in 0..3 { v[i] = g[(q % 5) as usize]; q /= 5; }
        let (m, ma) = (Mat3::from_cols_array(&arr), Mat3A::from_cols_array(&arr));
        let (v3, v3a) = (Vec3::from_array(v), <Vec3A as Flat>::build(&v));
        let want = (m * v3).to_array();
        acc.eval(v.iter().any(|x| *x != 0.0), idx);
        let forms: [(&str, [f32; 3]); 7] = [
            ("Mat3::mul_vec3a", m.mul_vec3a(v3a).to_array()), ("Mat3 * Vec3A", (m * v3a).to_array()), ("Mat3::mul_vec3", m.mul_vec3(v3).to_array()),
            ("Mat3A::mul_vec3", ma.mul_vec3(v3).to_array()), ("Mat3A * Vec3", (ma * v3).to_array()), ("Mat3A::mul_vec3a", ma.mul_vec3a(v3a).to_array()), ("Mat3A * Vec3A", (ma * v3a).to_array()),
        ];
        for (site, got) in forms {
            if got != want { acc.fail(site, format!("M={:?} v={:?} got={:?} want={:?}", arr, v, got, want)); }
        }
    });
}

fn minors(rep: &mut Report) {
    // minor constructors: drop exactly column i and row j
    macro_rules! minor {
        ($name:literal, $Big:ident, $Small:ident, $S:ident, $NB:expr, $f:expr) => {{
            const NB: usize = $NB;
            rep.sweep(concat!($name, "/all (i, j) x tag rounds"), (NB * NB) as u64 * ROUNDS + 4, |idx, acc| {
                if idx >= (NB * NB) as u64 * ROUNDS {
                    // out-of-range indices must panic
                    let k = idx - (NB * NB) as u64 * ROUNDS;
                    let (i, j) = [(NB, 0), (0, NB), (NB + 1, NB + 1), (usize::MAX, 0)][k as usize];
                    let a: Vec<$S> = tags::<$S>(NB * NB, 0);
                    let mut arr = [<$S as Sc>::zero(); NB * NB];
                    arr.copy_from_slice(&a);
                    let big = <$Big>::from_cols_array(&arr);
                    let f: fn($Big, usize, usize) -> $Small = $f;
                    acc.eval(true, idx);
                    if catch(|| f(big, i, j)).is_ok() { acc.fail($name, format!("({i}, {j}) did not panic")); }
                    return;
                }
                let d = digits(idx, [NB as u64, NB as u64, ROUNDS]);
                let (i, j) = (d[0], d[1]);
                let a: Vec<$S> = tags::<$S>(NB * NB, d[2]);
                let mut arr = [<$S as Sc>::zero(); NB * NB];
                arr.copy_from_slice(&a);
                let big = <$Big>::from_cols_array(&arr);
                let f: fn($Big, usize, usize) -> $Small = $f;
                let got = f(big, i, j).to_cols_array().to_vec();
                let mut want = vec![];
                for c in 0..NB { if c == i { continue; } for r in 0..NB { if r == j { continue; } want.push(a[c * NB + r]); } }
                acc.eval(true, idx);
                if !bits_eq(&got, &want) { acc.fail($name, format!("i={i} j={j} got={} want={}", show(&got), show(&want))); }
            });
        }};
    }
    minor!("Mat2::from_mat3_minor", Mat3, Mat2, f32, 3, |m, i, j| Mat2::from_mat3_minor(m, i, j));
    minor!("Mat2::from_mat3a_minor", Mat3A, Mat2, f32, 3, |m, i, j| Mat2::from_mat3a_minor(m, i, j));
    minor!("Mat3::from_mat4_minor", Mat4, Mat3, f32, 4, |m, i, j| Mat3::from_mat4_minor(m, i, j));
    minor!("Mat3A::from_mat4_minor", Mat4, Mat3A, f32, 4, |m, i, j| Mat3A::from_mat4_minor(m, i, j));
    minor!("DMat2::from_mat3_minor", DMat3, DMat2, f64, 3, |m, i, j| DMat2::from_mat3_minor(m, i, j));
    minor!("DMat3::from_mat4_minor", DMat4, DMat3, f64, 4, |m, i, j| DMat3::from_mat4_minor(m, i, j));
}

/// mixed matrix x affine products: the affine operand acts as its homogeneous matrix, in the
/// written order (exact on small integers)
fn mixed(rep: &mut Report) {
    use harness::refm::Mx;
    macro_rules! mix {
        ($M:ident, $A:ident, $S:ident, $R:expr) => {{
            const R: usize = $R;
            const H: usize = R + 1;
            rep.sweep(concat!(stringify!($M), " x ", stringify!($A), "/mixed products/integer grid"), 4096, |idx, acc| {
                let k = idx as usize;
                let mut am = [<$S as Sc>::zero(); H * H];
                let mut aa = [<$S as Sc>::zero(); R * H];
                for e in 0..H * H { am[e] = <$S as Sc>::of((((k * 7 + e * 5 + (k >> 3) * e) % 7) as f64) - 3.0); }
                for e in 0..R * H { aa[e] = <$S as Sc>::of((((k * 3 + e * e + (k >> 4) * (e + 1)) % 5) as f64) - 2.0); }
                let m = <$M>::from_cols_array(&am);
                let a = <$A>::from_cols_array(&aa);
                let mm = Mx::from_cols(H, &am.iter().map(|x| x.f()).collect::<Vec<_>>());
                let mut ah = Mx::ident(H);
                for c in 0..H { for r in 0..R { ah.set(r, c, aa[c * R + r].f()); } }
                let left: Vec<f64> = (m * a).to_cols_array().iter().map(|x| x.f()).collect();
                let right: Vec<f64> = (a * m).to_cols_array().iter().map(|x| x.f()).collect();
                let conv: Vec<f64> = <$M>::from(a).to_cols_array().iter().map(|x| x.f()).collect();
                acc.eval(true, left.iter().fold(0, |h, x| hmix(h, x.to_bits())));
                if left != mm.mul(&ah).cols() { acc.fail(concat!(stringify!($M), "*", stringify!($A)), format!("M={:?} A={:?} got={:?} want={:?}", am, aa, left, mm.mul(&ah).cols())); }
                if right != ah.mul(&mm).cols() { acc.fail(concat!(stringify!($A), "*", stringify!($M)), format!("M={:?} A={:?} got={:?} want={:?}", am, aa, right, ah.mul(&mm).cols())); }
                if conv != ah.cols() { acc.fail(concat!("From<", stringify!($A), "> for ", stringify!($M)), format!("A={:?} got={:?}", aa, conv)); }
            });
        }};
    }
    mix!(Mat3, Affine2, f32, 2);
    mix!(Mat3A, Affine2, f32, 2);
    mix!(DMat3, DAffine2, f64, 2);
    mix!(Mat4, Affine3A, f32, 3);
    mix!(DMat4, DAffine3, f64, 3);
}

fn f32_all_roundtrip(rep: &mut Report) {
    // every f32 bit pattern through every entry of the SIMD-packed layouts (thorough tier)
    macro_rules! rt {
        ($T:ident, $NN:expr) => {{
            rep.sweep(concat!(stringify!($T), "/array round trip/F32_ALL"), 1u64 << 32, |idx, acc| {
                let mut arr = [0.0f32; $NN];
                for k in 0..$NN {
                    arr[k] = f32::from_bits(phi(k % 4, (idx as u32).wrapping_add((k as u32 / 4).wrapping_mul(0x0101_0101))));
                }
                let m = <$T>::from_cols_array(&arr);
                let back = m.to_cols_array();
                let d2 = m.to_cols_array_2d();
                let n = ($NN as f64).sqrt() as usize;
                let ok = (0..$NN).all(|k| back[k].to_bits() == arr[k].to_bits());
                let ok2 = if n * n == $NN { (0..$NN).all(|k| d2[k / n][k % n].to_bits() == arr[k].to_bits()) } else { true };
                acc.eval(true, back[0].to_bits() as u64);
                if !ok || !ok2 { acc.fail(concat!(stringify!($T), "::array round trip"), format!("in={:x?}", arr.map(|x| x.to_bits()))); }
            });
        }};
    }
    rt!(Mat2, 4);
    rt!(Mat3A, 9);
    rt!(Mat4, 16);
}

fn main() {
    let mut rep = Report::new("C06", "exploration");
    silence_panics();
    rep.rule("cases = (matrix/affine type, accessor or constructor, index pair, tag round): entries carry pairwise distinct tags (3 rounds of NaN payloads/-0/subnormals/extremes, 2 rounds of finite values), expected placement from index arithmetic (k -> r = k mod R, c = k div R), bit-for-bit; product/transform laws on dense small-integer matrices x all grid vectors {-2..2}^N, exact; all cases non-trivial except zero vectors");
    mat_sq!(rep, Mat2, f32, 2, Vec2, [x_axis, y_axis], yes);
    mat_sq!(rep, Mat3, f32, 3, Vec3, [x_axis, y_axis, z_axis], yes);
    mat_sq!(rep, Mat3A, f32, 3, Vec3A, [x_axis, y_axis, z_axis], no);
    mat_sq!(rep, Mat4, f32, 4, Vec4, [x_axis, y_axis, z_axis, w_axis], yes);
    mat_sq!(rep, DMat2, f64, 2, DVec2, [x_axis, y_axis], yes);
    mat_sq!(rep, DMat3, f64, 3, DVec3, [x_axis, y_axis, z_axis], yes);
    mat_sq!(rep, DMat4, f64, 4, DVec4, [x_axis, y_axis, z_axis, w_axis], yes);
    affine!(rep, Affine2, f32, 2, Vec2, Vec2, Mat2, matrix2, [x_axis, y_axis, z_axis]);
    affine!(rep, DAffine2, f64, 2, DVec2, DVec2, DMat2, matrix2, [x_axis, y_axis, z_axis]);
    affine!(rep, Affine3A, f32, 3, Vec3A, Vec3, Mat3A, matrix3, [x_axis, y_axis, z_axis, w_axis]);
    affine!(rep, DAffine3, f64, 3, DVec3, DVec3, DMat3, matrix3, [x_axis, y_axis, z_axis, w_axis]);
    mat_laws!(rep, Mat2, f32, 2, Vec2);
    mat_laws!(rep, Mat3, f32, 3, Vec3);
    mat_laws!(rep, Mat3A, f32, 3, Vec3A);
    mat_laws!(rep, Mat4, f32, 4, Vec4);
    mat_laws!(rep, DMat2, f64, 2, DVec2);
    mat_laws!(rep, DMat3, f64, 3, DVec3);
    mat_laws!(rep, DMat4, f64, 4, DVec4);
    minors(&mut rep);
    mixed(&mut rep);
    alternate_vector_forms(&mut rep);
    if rep.thorough() {
        f32_all_roundtrip(&mut rep);
    }
    rep.sample(json!({"type": "Mat3A", "check": "row(2)[1] == to_cols_array()[1*3+2] == col(1)[2] == y_axis.z", "entries": "tagged NaN payloads"}));
    rep.sample(json!({"type": "Mat3::from_mat4_minor", "i": 1, "j": 2, "want": "columns 0,2,3 and rows 0,1,3 of the tagged 4x4"}));
    rep.sample(json!({"type": "Affine3A", "law": "transform_point3(p) = matrix3*p + translation on integer entries in [-3,3], p in {-2..2}^3, exact"}));
    // every operator trait impl of the tree (inventory from the rustdoc JSON): reference, assign and
    // scalar forms agree with the by-value form decided above
    harness::opforms::run(&mut rep, "affine", harness::opforms::OPFORMS_AFFINE);
    // the matrix family as well: `Product` is composition (A*B)*... in the column-vector convention
    harness::opforms::run(&mut rep, "mat", harness::opforms::OPFORMS_MAT);
    std::process::exit(rep.finish());
}
