//! C12 — interpolation, steering and clamping helpers hit endpoints and never overshoot (E1).
#![allow(clippy::all)]
use glam::*;
use harness::fam::*;
use harness::flat::*;
use harness::lat::*;
use harness::mat::{build_f64, f64s};
use harness::refm::*;
use harness::rep::*;
use serde_json::json;
use std::f64::consts::PI;

const SMENU: [f64; 10] = [0.0, 9.5367431640625e-7, 0.25, 1.0 / 3.0, 0.5, 0.75, 1.0 - 9.5367431640625e-7, 1.0, -0.25, 1.25];

/// direction pairs (a, b) in 3-D with their construction tag: equal, nearly equal, generic,
/// nearly opposite (pi - x) and exactly opposite
fn dir_pairs(thorough: bool) -> Vec<([f64; 3], [f64; 3], &'static str)> {
    let bases: Vec<[f64; 3]> = unit_dirs(2).into_iter().step_by(if thorough { 1 } else { 5 }).collect();
    let mut v = vec![];
    for (i, a) in bases.iter().enumerate() {
        // a perpendicular axis to rotate about
        let w = if a[0].abs() < 0.9 { [1.0, 0.0, 0.0] } else { [0.0, 1.0, 0.0] };
        let ax = normalize(&cross(a, &w));
        let rot = |ang: f64| -> [f64; 3] {
            let r = rodrigues(&ax, ang).mulv(a);
            [r[0], r[1], r[2]]
        };
        v.push((*a, *a, "equal"));
        for x in [1e-4, 1e-3, 1e-2] {
            v.push((*a, rot(x), "nearly equal"));
        }
        for x in [0.3, 1.0, PI / 2.0, 2.0, 2.8] {
            v.push((*a, rot(x), "generic"));
        }
        v.push((*a, bases[(i * 7 + 3) % bases.len()], "generic"));
        for x in [1e-1, 1e-2, 5e-3, 3e-3, 2e-3, 1e-3, 1e-4] {
            v.push((*a, rot(PI - x), "nearly opposite"));
        }
        v.push((*a, [-a[0], -a[1], -a[2]], "exactly opposite"));
    }
    v
}

fn tol_angle(theta: f64, eps: f64, a_acc: f64, k: f64) -> f64 {
    a_acc + k * eps / theta.sin().abs().max(eps.sqrt())
}

macro_rules! lerp_endpoints {
    ($rep:ident, $T:ident, $S:ident, $N:expr, $special:ident) => {{
        let sp: Vec<$S> = $special().into_iter().filter(|x| x.is_finite()).collect();
        let l = sp.len() as u64;
        let tn = stringify!($T);
        $rep.sweep(&format!("{tn}/lerp endpoints/finite SPECIAL^2 x lane-isolation"), l * l * ($N as u64 + 1), |idx, acc| {
            let d = digits(idx, [l, l, $N as u64 + 1]);
            let mut a = [1.5 as $S; $N];
            let mut b = [-2.25 as $S; $N];
            for i in 0..$N {
                if d[2] == $N || d[2] == i {
                    a[i] = sp[d[0]];
                    b[i] = sp[d[1]];
                }
            }
            let (va, vb) = (<$T>::from_array(a), <$T>::from_array(b));
            let g0 = va.lerp(vb, 0.0).to_array();
            let g1 = va.lerp(vb, 1.0).to_array();
            acc.eval(true, g0[0].to_bits() as u64 ^ (g1[0].to_bits() as u64).rotate_left(32));
            if !(0..$N).all(|i| g0[i] == a[i]) {
                acc.fail(&format!("{tn}::lerp(s=0)"), format!("a={:?} b={:?} got={:?}", a, b, g0));
            }
            if !(0..$N).all(|i| g1[i] == b[i]) {
                acc.fail(&format!("{tn}::lerp(s=1)"), format!("a={:?} b={:?} got={:?}", a, b, g1));
            }
        });
    }};
}

macro_rules! quat_interp {
    ($rep:ident, $Q:ident, $S:ident, $eps:expr, $aacc:expr) => {{
        let tn = stringify!($Q);
        let eps: f64 = $eps;
        let a_acc: f64 = $aacc;
        let rot = rot_family(if $rep.thorough() { 1 } else { 0 });
        let nsub = if $rep.thorough() { 160 } else { 48 };
        let mut sub: Vec<[f64; 4]> = rot.iter().step_by((rot.len() / nsub).max(1)).copied().collect();
        // plus some of the members that sit where implementations branch (near identity / half-turn, tiny axis components)
        sub.extend(rot_subset(0, 1).into_iter().skip(1).step_by(if $rep.thorough() { 4 } else { 12 }));
        // partners: the sub family itself plus special relatives of the start
        let ns = sub.len() as u64;
        let subr = &sub;
        let np = ns + 8;
        $rep.sweep(&format!("{tn}/lerp,slerp,rotate_towards/{ns} starts x {np} ends x 10 s"), ns * np * 10, |idx, acc| {
            let d = digits(idx, [ns, np, 10]);
            let qa = subr[d[0]];
            let qb: [f64; 4] = if (d[1] as u64) < ns {
                subr[d[1]]
            } else {
                // relatives: equal, opposite sign (same rotation), small and near-pi rotations of the start
                let k = d[1] as u64 - ns;
                let small = |ang: f64| qmul(&qa, &q_axis_angle(&[0.6, 0.0, 0.8], ang));
                match k {
                    0 => qa,
                    1 => [-qa[0], -qa[1], -qa[2], -qa[3]],
                    2 => small(1e-4),
                    3 => small(1e-3),
                    4 => small(1e-2),
                    5 => small(PI - 1e-3),
                    6 => small(PI),
                    _ => small(-2.0 * PI + 1e-3),
                }
            };
            let s = SMENU[d[2]] as $S;
            let a = <$Q>::from_xyzw(qa[0] as $S, qa[1] as $S, qa[2] as $S, qa[3] as $S).normalize();
            let b = <$Q>::from_xyzw(qb[0] as $S, qb[1] as $S, qb[2] as $S, qb[3] as $S).normalize();
            let arr = |q: $Q| -> [f64; 4] { let t = q.to_array(); [t[0] as f64, t[1] as f64, t[2] as f64, t[3] as f64] };
            let (fa, fb) = (arr(a), arr(b));
            let dt = dot(&fa, &fb);
            // shorter arc: flip the end if needed
            let fbs: Vec<f64> = if dt < 0.0 { fb.iter().map(|x| -x).collect() } else { fb.to_vec() };
            let theta = angle(&fa, &fbs); // quaternion-space angle in [0, pi/2]
            let ctx = || format!("start={:?} end={:?} s={:e} theta={:e}", fa, fb, s, theta);
            let tol = tol_angle(theta, eps, a_acc, 16.0);
            let sf = s as f64;
            for (site, r) in [("slerp", a.slerp(b, s)), ("lerp", a.lerp(b, s))] {
                let fr = arr(r);
                acc.eval(theta > 1e-6, fr[0].to_bits() ^ fr[3].to_bits().rotate_left(17));
                env(acc, &format!("{tn}::{site}(unit length)"), norm(&fr), 1.0, 8.0 * eps + if site == "slerp" { tol } else { 0.0 }, &ctx);
                // exactly opposite quaternions in 4-space cannot occur after the sign flip; when the
                // deciding dot product is within rounding of 0 either arc is "the shorter one"
                if dt.abs() < 8.0 * eps {
                    continue;
                }
                if (0.0..=1.0).contains(&sf) {
                    let ang_start = angle(&fa, &fr);
                    let ang_end = angle(&fbs, &fr);
                    if site == "slerp" || sf == 0.0 || sf == 1.0 || sf == 0.5 {
                        env(acc, &format!("{tn}::{site}(angle from start = s*theta)"), ang_start, sf * theta, tol + 8.0 * eps, &ctx);
                        env(acc, &format!("{tn}::{site}(angle to end = (1-s)*theta)"), ang_end, (1.0 - sf) * theta, tol + 8.0 * eps, &ctx);
                    } else {
                        // normalised lerp: on the shorter arc (angles add up), strictly between the ends
                        env(acc, &format!("{tn}::{site}(on the arc)"), ang_start + ang_end, theta, tol + 16.0 * eps, &ctx);
                    }
                }
            }
            // rotate_towards: rotation angle = 2 * quaternion angle
            let full = 2.0 * theta;
            for ma in [0.0, 1e-3, 0.5 * full, full * (1.0 - 1e-6), full, 2.0 * full + 0.1] {
                if ma.is_nan() {
                    continue;
                }
                let r = a.rotate_towards(b, ma as $S);
                let fr = arr(r);
                let ctxr = || format!("{} max_angle={:e}", ctx(), ma);
                acc.eval(theta > 1e-6, fr[1].to_bits());
                env(acc, &format!("{tn}::rotate_towards(unit)"), norm(&fr), 1.0, 8.0 * eps + tol, &ctxr);
                if dt.abs() < 8.0 * eps {
                    continue;
                }
                // rotation angle between two unit quaternions p, q: 2*acos|p.q|
                let rang = |p: &[f64], q: &[f64]| -> f64 { let pq: Vec<f64> = if dot(p, q) < 0.0 { q.iter().map(|x| -x).collect() } else { q.to_vec() }; 2.0 * angle(p, &pq) };
                let moved = rang(&fa, &fr);
                let remaining = rang(&fr, &fb);
                let want_moved = (ma as $S as f64).min(full);
                // the steering angle is measured with the approximate arccos: relative slack on small angles
                let rt = 4.0 * tol + 16.0 * eps + 4.0 * a_acc;
                env(acc, &format!("{tn}::rotate_towards(angle moved)"), moved, want_moved, rt + 1e-4_f64.min(full) * if full <= 2e-4 { 1.0 } else { 0.0 }, &ctxr);
                env(acc, &format!("{tn}::rotate_towards(never passes the target)"), remaining, full - want_moved, rt + if full <= 2e-4 { full } else { 0.0 }, &ctxr);
            }
        });
    }};
}

macro_rules! vec3_steer {
    ($rep:ident, $T:ident, $S:ident, $Q:ident, $eps:expr, $aacc:expr) => {{
        let tn = stringify!($T);
        let eps: f64 = $eps;
        let a_acc: f64 = $aacc;
        let pairs = dir_pairs($rep.thorough());
        let np = pairs.len() as u64;
        let pr = &pairs;
        let mags = [(1.0, 1.0), (2.5, 0.5), (1e-3, 40.0), (3e4, 3e4)];
        $rep.sweep(&format!("{tn}/slerp,rotate_towards,from_rotation_arc/{np} direction pairs x 4 magnitudes x 10 s"), np * 4 * 10, |idx, acc| {
            let d = digits(idx, [np, 4, 10]);
            let (da, db, kind) = pr[d[0]];
            let (ma, mb) = mags[d[1]];
            let s = SMENU[d[2]] as $S;
            let sf = s as f64;
            let (va, vb): ($T, $T) = (build_f64(&scale(&da, ma)), build_f64(&scale(&db, mb)));
            let (a, b) = (f64s(&va), f64s(&vb));
            let (la, lb) = (norm(&a), norm(&b));
            let theta = angle(&a, &b);
            let ctx = || format!("a={:?} b={:?} ({kind}) s={:e} theta={:e}", a, b, s, theta);
            let mut tol = tol_angle(theta, eps, a_acc, 24.0);
            // within 0.05 rad of exactly opposite the textbook formula divides the angle error by
            // sin(theta) once more (t1*a + t2*b cancels to magnitude sin theta): tolerance = angle
            // accuracy / sin(theta), as the quantifier prescribes for this zone
            let tol_plain = tol;
            if theta > PI - 0.05 {
                tol = tol / theta.sin().abs().max(eps.sqrt());
            }
            // slerp: length interpolated linearly, angle from start = s * theta (s in [0,1])
            let r = f64s(&va.slerp(vb, s));
            acc.eval(true, r[0].to_bits() ^ r[2].to_bits().rotate_left(13));
            let want_len = la + (lb - la) * sf;
            env(acc, &format!("{tn}::slerp(length)"), norm(&r), want_len.abs(), (16.0 * eps + tol) * (la.max(lb)) * (1.0 + sf.abs()), &ctx);
            // both endpoints are reached for every pair, nearly opposite ones included: at s = 0 and
            // s = 1 one sine weight is exactly 0 and the other cancels against 1/sin(theta), so the
            // only error is rounding plus, in the opposite-direction fallback, the angle pi - theta
            // itself, which that branch is entered only for (pi - theta)^2 of order eps: eps / sin(theta)
            if sf == 0.0 || sf == 1.0 {
                let end = if sf == 0.0 { &a } else { &b };
                let te = 16.0 * eps / theta.sin().abs().max(eps.sqrt()) + 16.0 * eps;
                env(acc, &format!("{tn}::slerp(reaches the endpoint)"), norm(&sub(&r, end)) / norm(end), 0.0, te, &ctx);
            }
            if (0.0..=1.0).contains(&sf) && want_len > 0.0 {
                env(acc, &format!("{tn}::slerp(angle from start)"), angle(&a, &r), sf * theta, tol + 8.0 * eps, &ctx);
                if theta < PI - 0.05 {
                    // away from the antipodal configuration the path stays in the plane of a and b
                    env(acc, &format!("{tn}::slerp(angle to end)"), angle(&b, &r), (1.0 - sf) * theta, tol + 8.0 * eps, &ctx);
                }
            }
            // rotate_towards (only once per pair/magnitude: s index 0 carries the angle menu)
            if d[2] < 6 {
                let ma_ = [0.0, 1e-3, 0.5 * theta, theta, theta + 0.7, -0.4][d[2]];
                let r = f64s(&va.rotate_towards(vb, ma_ as $S));
                let ctxr = || format!("{} max_angle={:e}", ctx(), ma_);
                let mut rt = 2.0 * tol_plain + 16.0 * eps;
                // near the antipodal configuration the rotation plane is ill-defined: eps / sin
                if theta > PI - 0.05 { rt += 64.0 * eps / theta.sin().abs().max(eps.sqrt()); }
                acc.eval(true, r[1].to_bits());
                env(acc, &format!("{tn}::rotate_towards(length preserved)"), norm(&r), la, 16.0 * eps * la + rt * la, &ctxr);
                let maf = ma_ as $S as f64;
                if maf >= 0.0 {
                    let want = maf.min(theta);
                    env(acc, &format!("{tn}::rotate_towards(angle moved)"), angle(&a, &r), want, rt, &ctxr);
                    if theta < PI - 0.05 { env(acc, &format!("{tn}::rotate_towards(never passes the target)"), angle(&r, &b), theta - want, rt, &ctxr); }
                } else if theta < PI - 0.05 && theta > 0.05 {
                    // negative angle: away from the target, no further than pi from it
                    let want = (theta - maf).min(PI);
                    env(acc, &format!("{tn}::rotate_towards(negative angle)"), angle(&r, &b), want, rt, &ctxr);
                }
            }
            // from_rotation_arc on the unit directions (only for magnitude 0 and s index 0)
            if d[1] == 0 && d[2] == 0 {
                let (ua, ub): (glam::$T, glam::$T) = (build_f64(&normalize(&a)), build_f64(&normalize(&b)));
                let (fa, fb) = (f64s(&ua), f64s(&ub));
                let th = angle(&fa, &fb);
                let tq = tol_angle(th, eps, 0.0, 32.0) + 8.0 * eps;
                vec3_steer!(@arc $T, $Q, acc, tn, ua, ub, fa, fb, th, tq, ctx);
            }
        });
    }};
    (@arc Vec3A, $Q:ident, $acc:ident, $tn:ident, $ua:ident, $ub:ident, $fa:ident, $fb:ident, $th:ident, $tq:ident, $ctx:ident) => {};
    (@arc $T:ident, $Q:ident, $acc:ident, $tn:ident, $ua:ident, $ub:ident, $fa:ident, $fb:ident, $th:ident, $tq:ident, $ctx:ident) => {{
        let q = <$Q>::from_rotation_arc($ua, $ub);
        let qa = q.to_array();
        let qf = [qa[0] as f64, qa[1] as f64, qa[2] as f64, qa[3] as f64];
        let img = f64s(&(q * $ua));
        $acc.eval(true, qf[3].to_bits());
        env($acc, &format!("{}::from_rotation_arc(unit)", stringify!($Q)), norm(&qf), 1.0, 8.0 * 1.2e-7_f64.max($tq * 0.0) + $tq, &$ctx);
        env_vec($acc, &format!("{}::from_rotation_arc(arc*a = b)", stringify!($Q)), &img, &$fb, &[2.0 * $tq], &$ctx);
        let qc = <$Q>::from_rotation_arc_colinear($ua, $ub);
        let imgc = f64s(&(qc * $ua));
        // aligns a with whichever of +b / -b is closer; when a.b is within rounding of 0 either is accepted
        let dab = dot(&$fa, &$fb);
        let neg: Vec<f64> = $fb.iter().map(|x| -x).collect();
        let _ = $th;
        let err_pos = norm(&sub(&imgc, &$fb));
        let err_neg = norm(&sub(&imgc, &neg));
        let err = if dab > 1e-6 { err_pos } else if dab < -1e-6 { err_neg } else { err_pos.min(err_neg) };
        env($acc, &format!("{}::from_rotation_arc_colinear(aligns a with +-b)", stringify!($Q)), err, 0.0, 4.0 * $tq, &$ctx);
    }};
}

macro_rules! move_clamp {
    ($rep:ident, $T:ident, $S:ident, $N:expr, $eps:expr) => {{
        let tn = stringify!($T);
        let eps: f64 = $eps;
        let n = $N as usize;
        // points from an integer grid scaled
        let g = 5u64.pow(n as u32);
        $rep.sweep(&format!("{tn}/move_towards,clamp_length/{{-2..2}}^{n} pairs x 3 scales x step menu"), g * g * 3 * 8, |idx, acc| {
            let d = digits(idx, [g, g, 3, 8]);
            let gv = |mut k: u64| -> Vec<f64> { (0..n).map(|_| { let v = (k % 5) as f64 - 2.0; k /= 5; v }).collect() };
            let sc = [1.0, 1e-3, 777.5][d[2]];
            let (va, vb): ($T, $T) = (build_f64(&scale(&gv(d[0] as u64), sc)), build_f64(&scale(&gv(d[1] as u64), sc * 0.75)));
            let (a, b) = (f64s(&va), f64s(&vb));
            let dist = norm(&sub(&b, &a));
            let step = [0.0, 1e-6 * sc, 0.5 * dist, dist * (1.0 - 1e-6), dist, dist * (1.0 + 1e-6), 2.0 * dist + 1.0, 1e-5][d[3]];
            if d[3] == 4 {
                // a step bit-identical to the remaining distance as the library itself computes it is
                // "within reach": the target itself, exactly
                for lib_d in [va.distance(vb), vb.distance(va), (vb - va).length()] {
                    let r = va.move_towards(vb, lib_d);
                    acc.eval(true, 4);
                    if f64s(&r) != f64s(&vb) { acc.fail(&format!("{tn}::move_towards(step equal to the distance returns the target)"), format!("a={:?} b={:?} d={:e} got={:?}", f64s(&va), f64s(&vb), lib_d, f64s(&r))); }
                }
            }
            let stepf = step as $S as f64;
            let ctx = || format!("a={:?} b={:?} d={:e} distance={:e}", a, b, stepf, dist);
            let r = f64s(&va.move_towards(vb, step as $S));
            acc.eval(dist > 0.0, r[0].to_bits() ^ (d[3] as u64));
            let slack = 8.0 * eps * (norm(&a) + norm(&b) + stepf.abs());
            if dist <= stepf - slack {
                // within reach: the target itself
                if r != b { acc.fail(&format!("{tn}::move_towards(returns the target within reach)"), format!("{} got={:?}", ctx(), r)); }
            } else if dist > stepf + slack && dist > 1e-4 + slack {
                env(acc, &format!("{tn}::move_towards(distance moved)"), norm(&sub(&r, &a)), stepf, slack, &ctx);
                env(acc, &format!("{tn}::move_towards(never passes the target)"), norm(&sub(&b, &r)), dist - stepf, slack, &ctx);
            } else {
                // boundary slack or the documented 1e-4 snap: either the target or a point at most `slack` before it
                let rem = norm(&sub(&b, &r));
                if !(rem <= (dist - stepf).abs() + slack + 1e-4) { acc.fail(&format!("{tn}::move_towards(boundary)"), format!("{} got={:?}", ctx(), r)); }
            }
            // clamp_length family on a
            let la = norm(&a);
            if la > 0.0 {
                for (mn, mx) in [(0.5 * sc, 1.5 * sc), (2.0 * la, 3.0 * la), (0.1 * la, 0.5 * la), (la, la), (0.0, 0.0)] {
                    let (mnf, mxf) = (mn as $S as f64, mx as $S as f64);
                    let checks: Vec<(&str, Vec<f64>, f64, f64)> = vec![
                        ("clamp_length", f64s(&va.clamp_length(mn as $S, mx as $S)), mnf, mxf),
                        ("clamp_length_min", f64s(&va.clamp_length_min(mn as $S)), mnf, f64::INFINITY),
                        ("clamp_length_max", f64s(&va.clamp_length_max(mx as $S)), 0.0, mxf),
                    ];
                    for (site, r, lo, hi) in checks {
                        let lr = norm(&r);
                        let want = la.max(lo).min(hi);
                        acc.eval(true, r[0].to_bits());
                        env(acc, &format!("{tn}::{site}(length inside the bounds)"), lr, want, 8.0 * eps * want.max(la), &|| format!("{} bounds=({:e}, {:e})", ctx(), lo, hi));
                        if la >= lo * (1.0 + 8.0 * eps) && la <= hi * (1.0 - 8.0 * eps) && r != a {
                            acc.fail(&format!("{tn}::{site}(unchanged inside the bounds)"), format!("{} bounds=({:e}, {:e}) got={:?}", ctx(), lo, hi, r));
                        }
                        if want > 0.0 {
                            // direction kept
                            let dir_err = norm(&sub(&scale(&r, 1.0 / lr), &scale(&a, 1.0 / la)));
                            env(acc, &format!("{tn}::{site}(direction kept)"), dir_err, 0.0, 8.0 * eps, &|| format!("{} bounds=({:e}, {:e}) got={:?}", ctx(), lo, hi, r));
                        }
                    }
                }
            }
        });
    }};
}

macro_rules! ortho3 {
    ($rep:ident, $T:ident, $S:ident, $eps:expr) => {{
        let tn = stringify!($T);
        let eps: f64 = $eps;
        // unit sphere lattice including z = -1 and z = -1 + 2^-20 for the orthonormal-basis construction
        let mut dirs: Vec<[f64; 3]> = unit_dirs(3);
        for t in [0.0, 9.5367431640625e-7, 1e-4, 1e-2] {
            for ph in [0.0, 1.0, 2.5, 4.0] {
                let z: f64 = -1.0 + t;
                let r = (1.0 - z * z).max(0.0).sqrt();
                dirs.push([r * f64::cos(ph), r * f64::sin(ph), z]);
                dirs.push([r * f64::cos(ph), r * f64::sin(ph), -z]);
            }
        }
        let nd = dirs.len() as u64;
        let dr = &dirs;
        $rep.sweep(&format!("{tn}/any_orthogonal_vector,any_orthonormal_vector,any_orthonormal_pair/{nd} unit directions x 3 magnitudes"), nd * 3, |idx, acc| {
            let u = dr[(idx % nd) as usize];
            let mag = [1.0, 1e-3, 2.5e4][(idx / nd) as usize];
            let vu: $T = build_f64(&normalize(&u));
            let fu = f64s(&vu);
            let vm: $T = build_f64(&scale(&u, mag));
            let fm = f64s(&vm);
            let ctx = || format!("v={:?}", fu);
            let o = f64s(&vm.any_orthogonal_vector());
            acc.eval(true, o[0].to_bits() ^ o[2].to_bits().rotate_left(7));
            if norm(&o) == 0.0 { acc.fail(&format!("{tn}::any_orthogonal_vector"), format!("v={:?} returned zero", fm)); }
            env(acc, &format!("{tn}::any_orthogonal_vector"), dot(&o, &fm), 0.0, 8.0 * eps * norm(&o) * norm(&fm), &|| format!("v={:?} got={:?}", fm, o));
            if idx / nd == 0 {
                let n1 = f64s(&vu.any_orthonormal_vector());
                env(acc, &format!("{tn}::any_orthonormal_vector(unit)"), norm(&n1), 1.0, 16.0 * eps, &ctx);
                env(acc, &format!("{tn}::any_orthonormal_vector(orthogonal)"), dot(&n1, &fu), 0.0, 16.0 * eps, &ctx);
                let (p, q) = vu.any_orthonormal_pair();
                let (p, q) = (f64s(&p), f64s(&q));
                env(acc, &format!("{tn}::any_orthonormal_pair(unit)"), norm(&p), 1.0, 16.0 * eps, &ctx);
                env(acc, &format!("{tn}::any_orthonormal_pair(unit)"), norm(&q), 1.0, 16.0 * eps, &ctx);
                env(acc, &format!("{tn}::any_orthonormal_pair(orthogonal to v)"), dot(&p, &fu).abs() + dot(&q, &fu).abs(), 0.0, 32.0 * eps, &ctx);
                env(acc, &format!("{tn}::any_orthonormal_pair(mutually orthogonal)"), dot(&p, &q), 0.0, 16.0 * eps, &ctx);
            }
        });
    }};
}

macro_rules! vec2_steer {
    ($rep:ident, $T:ident, $S:ident, $Q:ident, $eps:expr, $aacc:expr) => {{
        let tn = stringify!($T);
        let eps: f64 = $eps;
        let a_acc: f64 = $aacc;
        let na: u64 = if $rep.thorough() { 96 } else { 32 };
        let offs = [0.0, 1e-4, 1e-3, 1e-2, 0.3, 1.0, PI / 2.0, 2.0, 2.8, PI - 1e-2, PI - 1e-3, PI - 1e-4, PI];
        $rep.sweep(&format!("{tn}/rotate_towards,from_rotation_arc_2d/{na} start angles x 13 separations x 2 senses x 6 steps"), na * 13 * 2 * 6, |idx, acc| {
            let d = digits(idx, [na, 13, 2, 6]);
            let t0 = 2.0 * PI * d[0] as f64 / na as f64 + 0.01;
            let sep = offs[d[1]] * if d[2] == 0 { 1.0 } else { -1.0 };
            let (va, vb): ($T, $T) = (build_f64(&[2.5 * t0.cos(), 2.5 * t0.sin()]), build_f64(&[0.5 * (t0 + sep).cos(), 0.5 * (t0 + sep).sin()]));
            let (a, b) = (f64s(&va), f64s(&vb));
            let theta = angle(&a, &b);
            let ma = [0.0, 1e-3, 0.5 * theta, theta, theta + 0.7, -0.4][d[3]];
            let r = f64s(&va.rotate_towards(vb, ma as $S));
            let ctx = || format!("a={:?} b={:?} theta={:e} max_angle={:e}", a, b, theta, ma);
            let rt = 2.0 * tol_angle(theta, eps, a_acc, 24.0) + 16.0 * eps;
            acc.eval(true, r[0].to_bits());
            env(acc, &format!("{tn}::rotate_towards(length preserved)"), norm(&r), norm(&a), (16.0 * eps + rt) * norm(&a), &ctx);
            let maf = ma as $S as f64;
            // the sense of rotation is decided by the sign of the perp product: skip where it is within rounding
            let pd = a[0] * b[1] - a[1] * b[0];
            if pd.abs() > 64.0 * eps * norm(&a) * norm(&b) || theta < 1e-6 {
                if maf >= 0.0 {
                    let want = maf.min(theta);
                    env(acc, &format!("{tn}::rotate_towards(angle moved)"), angle(&a, &r), want, rt, &ctx);
                    env(acc, &format!("{tn}::rotate_towards(never passes the target)"), angle(&r, &b), theta - want, rt, &ctx);
                } else if theta > 0.05 {
                    env(acc, &format!("{tn}::rotate_towards(negative angle)"), angle(&r, &b), (theta - maf).min(PI), rt, &ctx);
                }
            }
            if d[3] == 0 {
                let (ua, ub): ($T, $T) = (build_f64(&normalize(&a)), build_f64(&normalize(&b)));
                let (fa, fb) = (f64s(&ua), f64s(&ub));
                let q = <$Q>::from_rotation_arc_2d(ua, ub);
                let qa = q.to_array();
                let qf = [qa[0] as f64, qa[1] as f64, qa[2] as f64, qa[3] as f64];
                let img = qsandwich(&qf, &[fa[0], fa[1], 0.0]);
                let th = angle(&fa, &fb);
                let tq = tol_angle(th, eps, 0.0, 32.0) + 8.0 * eps;
                env(acc, &format!("{}::from_rotation_arc_2d(unit)", stringify!($Q)), norm(&qf), 1.0, 8.0 * eps + tq, &ctx);
                env_vec(acc, &format!("{}::from_rotation_arc_2d(arc*a = b)", stringify!($Q)), &img, &[fb[0], fb[1], 0.0], &[2.0 * tq], &ctx);
            }
        });
    }};
}

macro_rules! float_ext {
    ($rep:ident, $S:ident, $eps:expr) => {{
        let eps: f64 = $eps;
        let vals: [f64; 9] = [-1e3, -2.5, -1.0, 0.0, 0.125, 1.0, 3.0, 1e3, 1e-3];
        $rep.sweep(concat!(stringify!($S), "/FloatExt::lerp,inverse_lerp,remap/9^5 values"), 9u64.pow(5), |idx, acc| {
            let d = digits(idx, [9, 9, 9, 9, 9]);
            let (a, b, s, c, e) = (vals[d[0]] as $S, vals[d[1]] as $S, vals[d[2]] as $S * 0.25, vals[d[3]] as $S, vals[d[4]] as $S);
            let (af, bf, sf, cf, ef) = (a as f64, b as f64, s as f64, c as f64, e as f64);
            let ctx = || format!("a={af} b={bf} s={sf} out=({cf}, {ef})");
            let g = FloatExt::lerp(a, b, s) as f64;
            acc.eval(true, g.to_bits());
            env(acc, concat!(stringify!($S), "::lerp"), g, af + (bf - af) * sf, 6.0 * eps * (af.abs() + (af.abs() + bf.abs()) * sf.abs()), &ctx);
            if FloatExt::lerp(a, b, 0.0) != a { acc.fail(concat!(stringify!($S), "::lerp(s=0)"), ctx()); }
            if af != bf {
                let v = s * 4.0;
                let g = <$S as FloatExt>::inverse_lerp(a, b, v) as f64;
                let vf = v as f64;
                env(acc, concat!(stringify!($S), "::inverse_lerp"), g, (vf - af) / (bf - af), 6.0 * eps * (vf.abs() + af.abs()) / (bf - af).abs() * (1.0 + (af.abs() + bf.abs()) / (bf - af).abs()), &ctx);
                if <$S as FloatExt>::inverse_lerp(a, b, a) != 0.0 || <$S as FloatExt>::inverse_lerp(a, b, b) != 1.0 { acc.fail(concat!(stringify!($S), "::inverse_lerp(endpoints)"), ctx()); }
                let g = v.remap(a, b, c, e) as f64;
                let t = (vf - af) / (bf - af);
                let cond = 1.0 + (af.abs() + bf.abs() + vf.abs()) / (bf - af).abs();
                env(acc, concat!(stringify!($S), "::remap"), g, cf + (ef - cf) * t, 12.0 * eps * cond * (cf.abs() + (cf.abs() + ef.abs()) * t.abs().max(1.0)), &ctx);
                if a.remap(a, b, c, e) != c { acc.fail(concat!(stringify!($S), "::remap(in_start -> out_start)"), ctx()); }
            }
        });
    }};
}

fn main() {
    let mut rep = Report::new("C12", "exploration");
    silence_panics();
    rep.rule("cases = (type, operation, operand pair from the families {equal, nearly equal (1e-4..1e-2 rad), generic, nearly opposite (pi - 1e-1..1e-4), exactly opposite}, parameter from the s / step menus): vector lerp endpoints exact on all finite special-lattice pairs; quaternion slerp: unit, angle from start = s*theta along the shorter arc, both endpoints; quaternion lerp: unit, on the shorter arc, exact law at s in {0, .5, 1}; vector slerp: interpolated length, angle s*theta; move_towards / rotate_towards: distance/angle moved, target returned within reach, remaining distance/angle = total - moved (never passes), length preserved; clamp_length*: direction kept, length inside bounds, unchanged inside; any_ortho*: orthogonality and unit length incl. z = -1 and z = -1+2^-20; from_rotation_arc*: arc*a = b. Tolerances A + K*eps/max(sin theta, sqrt eps) as the quantifier prescribes; non-trivial = the two operands differ");
    lerp_endpoints!(rep, Vec2, f32, 2, f32_special);
    lerp_endpoints!(rep, Vec3, f32, 3, f32_special);
    lerp_endpoints!(rep, Vec3A, f32, 3, f32_special);
    lerp_endpoints!(rep, Vec4, f32, 4, f32_special);
    lerp_endpoints!(rep, DVec2, f64, 2, f64_special);
    lerp_endpoints!(rep, DVec3, f64, 3, f64_special);
    lerp_endpoints!(rep, DVec4, f64, 4, f64_special);
    quat_interp!(rep, Quat, f32, EPS32, 8e-6);
    quat_interp!(rep, DQuat, f64, EPS64, 0.0);
    vec3_steer!(rep, Vec3, f32, Quat, EPS32, 4e-6);
    vec3_steer!(rep, Vec3A, f32, Quat, EPS32, 4e-6);
    vec3_steer!(rep, DVec3, f64, DQuat, EPS64, 0.0);
    vec2_steer!(rep, Vec2, f32, Quat, EPS32, 4e-6);
    vec2_steer!(rep, DVec2, f64, DQuat, EPS64, 0.0);
    move_clamp!(rep, Vec2, f32, 2, EPS32);
    move_clamp!(rep, Vec3, f32, 3, EPS32);
    move_clamp!(rep, Vec3A, f32, 3, EPS32);
    move_clamp!(rep, Vec4, f32, 4, EPS32);
    move_clamp!(rep, DVec2, f64, 2, EPS64);
    move_clamp!(rep, DVec3, f64, 3, EPS64);
    move_clamp!(rep, DVec4, f64, 4, EPS64);
    ortho3!(rep, Vec3, f32, EPS32);
    ortho3!(rep, Vec3A, f32, EPS32);
    ortho3!(rep, DVec3, f64, EPS64);
    float_ext!(rep, f32, EPS32);
    float_ext!(rep, f64, EPS64);
    rep.sample(json!({"op": "Quat::slerp", "start": "icosahedral element", "end": "start * rotation by pi-1e-3 about (.6,0,.8)", "s": 0.3333, "checks": "unit, angle(start, r) = s*theta, angle(r, end) = (1-s)*theta"}));
    rep.sample(json!({"op": "Vec3::rotate_towards", "a": "2.5*(1,-2,2)/3", "b": "a rotated by pi-1e-3", "max_angle": "0.5*theta", "checks": "length preserved, angle moved, remaining = theta - moved"}));
    std::process::exit(rep.finish());
}
