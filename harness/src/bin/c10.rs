//! C10 — scale-rotation-translation composition and decomposition are mutually consistent (E1).
#![allow(clippy::all)]
use glam::*;
use harness::fam::*;
use harness::lat::digits;
use harness::refm::*;
use harness::rep::*;
use serde_json::json;

/// 4x4 (3-D) or 3x3 (2-D) homogeneous reference: T * R * S
fn trs3(s: &[f64], r: &Mx, t: &[f64]) -> Mx {
    let mut m = Mx::ident(4);
    for c in 0..3 {
        for rr in 0..3 {
            m.set(rr, c, r.at(rr, c) * s[c]);
        }
        m.set(c, 3, t[c]);
    }
    m
}
fn trs2(s: &[f64], ang: f64, t: &[f64]) -> Mx {
    let (sn, cs) = ang.sin_cos();
    let mut m = Mx::ident(3);
    m.set(0, 0, cs * s[0]);
    m.set(1, 0, sn * s[0]);
    m.set(0, 1, -sn * s[1]);
    m.set(1, 1, cs * s[1]);
    m.set(0, 2, t[0]);
    m.set(1, 2, t[1]);
    m
}

trait Hom3: Copy {
    const NAME: &'static str;
    /// as 4x4 homogeneous matrix (f64)
    fn hom(&self) -> Mx;
}
macro_rules! hom_m4 {
    ($T:ident) => {
        impl Hom3 for $T {
            const NAME: &'static str = stringify!($T);
            fn hom(&self) -> Mx {
                let c: Vec<f64> = self.to_cols_array().iter().map(|x| *x as f64).collect();
                Mx::from_cols(4, &c)
            }
        }
    };
}
hom_m4!(Mat4);
hom_m4!(DMat4);
macro_rules! hom_a3 {
    ($T:ident) => {
        impl Hom3 for $T {
            const NAME: &'static str = stringify!($T);
            fn hom(&self) -> Mx {
                let c: Vec<f64> = self.to_cols_array().iter().map(|x| *x as f64).collect();
                let mut m = Mx::ident(4);
                for col in 0..4 {
                    for r in 0..3 {
                        m.set(r, col, c[col * 3 + r]);
                    }
                }
                m
            }
        }
    };
}
hom_a3!(Affine3A);
hom_a3!(DAffine3);

trait Hom2: Copy {
    const NAME: &'static str;
    fn hom(&self) -> Mx;
}
macro_rules! hom_m3 {
    ($T:ident) => {
        impl Hom2 for $T {
            const NAME: &'static str = stringify!($T);
            fn hom(&self) -> Mx {
                let c: Vec<f64> = self.to_cols_array().iter().map(|x| *x as f64).collect();
                Mx::from_cols(3, &c)
            }
        }
    };
}
hom_m3!(Mat3);
hom_m3!(Mat3A);
hom_m3!(DMat3);
macro_rules! hom_a2 {
    ($T:ident) => {
        impl Hom2 for $T {
            const NAME: &'static str = stringify!($T);
            fn hom(&self) -> Mx {
                let c: Vec<f64> = self.to_cols_array().iter().map(|x| *x as f64).collect();
                let mut m = Mx::ident(3);
                for col in 0..3 {
                    for r in 0..2 {
                        m.set(r, col, c[col * 2 + r]);
                    }
                }
                m
            }
        }
    };
}
hom_a2!(Affine2);
hom_a2!(DAffine2);

// magnitudes over the stated range plus two within 1e-4 of 1 (where a decomposition might be tempted to snap)
const MAGS: [f64; 7] = [1e-3, 0.5, 0.99995, 1.0, 1.00003, 2.0, 1e3];
const TRANS: [[f64; 3]; 5] = [[0.0, 0.0, 0.0], [1.0, -2.0, 3.0], [1e3, 0.25, -7.5], [-1e-3, 1e-3, 0.5], [12345.678, -0.001, 99.5]];

fn bound_trs(n: usize, want: &Mx, k: f64, eps: f64, smax: &[f64]) -> Vec<f64> {
    // linear block entries scale with the column's scale factor; translation column is exact
    let mut b = vec![0.0; n * n];
    for c in 0..n {
        for r in 0..n {
            b[c * n + r] = if c < n - 1 && r < n - 1 { k * eps * smax[c].abs() } else { 0.0 };
        }
    }
    let _ = want;
    b
}

macro_rules! srt3 {
    ($rep:ident, $S:ident, $eps:expr, $Q:ident, $V3:ident, $M3:ident, [$($T:ident),*]) => {{
        let eps: f64 = $eps;
        let rot = rot_family(if $rep.thorough() { 1 } else { 0 });
        let nsub = if $rep.thorough() { 256 } else { 48 };
        let step = (rot.len() / nsub).max(1);
        // a strided cut of the family plus all of its members within 1e-2 rad of the identity and of a half-turn
        let mut sub: Vec<[f64; 4]> = rot.iter().step_by(step).copied().collect();
        for q in rot.iter() {
            let w = q[3].abs() / (q[0] * q[0] + q[1] * q[1] + q[2] * q[2] + q[3] * q[3]).sqrt();
            if (w > 0.99998 || w < 5.1e-3) && !sub.contains(q) { sub.push(*q); }
        }
        let nr = sub.len() as u64;
        let subr = &sub;
        $rep.sweep(&format!("{}/3-D SRT/2744 scales x {nr} rotations x 5 translations", stringify!($S)), 2744 * nr * 5, |idx, acc| {
            let d = digits(idx, [7, 7, 7, 8, nr, 5]);
            let sf = [MAGS[d[0]] * if d[3] & 1 == 1 { -1.0 } else { 1.0 }, MAGS[d[1]] * if d[3] & 2 == 2 { -1.0 } else { 1.0 }, MAGS[d[2]] * if d[3] & 4 == 4 { -1.0 } else { 1.0 }];
            let qf = subr[d[4]];
            let tf = TRANS[d[5]];
            let s = <$V3>::new(sf[0] as $S, sf[1] as $S, sf[2] as $S);
            let q = <$Q>::from_xyzw(qf[0] as $S, qf[1] as $S, qf[2] as $S, qf[3] as $S);
            let t = <$V3>::new(tf[0] as $S, tf[1] as $S, tf[2] as $S);
            // references on the stored values
            let ss = [s.x as f64, s.y as f64, s.z as f64];
            let qa = q.to_array();
            let qs = [qa[0] as f64, qa[1] as f64, qa[2] as f64, qa[3] as f64];
            let ts = [t.x as f64, t.y as f64, t.z as f64];
            let r = qmat(&qnormalize(&qs));
            let want = trs3(&ss, &r, &ts);
            let want_rt = trs3(&[1.0, 1.0, 1.0], &r, &ts);
            let ctx = || format!("scale={:?} rotation={:?} translation={:?}", ss, qs, ts);
            let m3 = <$M3>::from_quat(q);
            $(
                let m = <$T>::from_scale_rotation_translation(s, q, t);
                acc.eval(true, m.hom().a[5].to_bits());
                env_vec(acc, &format!("{}::from_scale_rotation_translation", <$T as Hom3>::NAME), m.hom().cols(), want.cols(), &bound_trs(4, &want, 12.0, eps, &ss), &ctx);
                let m_rt = <$T>::from_rotation_translation(q, t);
                env_vec(acc, &format!("{}::from_rotation_translation", <$T as Hom3>::NAME), m_rt.hom().cols(), want_rt.cols(), &bound_trs(4, &want_rt, 12.0, eps, &[1.0, 1.0, 1.0]), &ctx);
                let m_mt = <$T>::from_mat3_translation(m3, t);
                // exact data movement of the 3x3 block and the translation
                let mut wmt = Mx::ident(4);
                let c3: Vec<f64> = m3.to_cols_array().iter().map(|x| *x as f64).collect();
                for c in 0..3 { for rr in 0..3 { wmt.set(rr, c, c3[c * 3 + rr]); } wmt.set(c, 3, ts[c]); }
                if m_mt.hom().cols() != wmt.cols() { acc.fail(&format!("{}::from_mat3_translation", <$T as Hom3>::NAME), format!("{} got={:?} want={:?}", ctx(), m_mt.hom().cols(), wmt.cols())); }
                // elementary constructors: translation * rotation * scale equals the combined one
                let prod = <$T>::from_translation(t) * <$T>::from_quat(q) * <$T>::from_scale(s);
                env_vec(acc, &format!("{}::from_translation*from_quat*from_scale", <$T as Hom3>::NAME), prod.hom().cols(), want.cols(), &bound_trs(4, &want, 16.0, eps, &ss), &ctx);
                // decomposition
                let (s2, q2, t2) = m.to_scale_rotation_translation();
                let mh = m.hom();
                let t2f = [t2.x as f64, t2.y as f64, t2.z as f64];
                acc.eval(true, (s2.x as f64).to_bits());
                if t2f != [mh.at(0, 3), mh.at(1, 3), mh.at(2, 3)] { acc.fail(&format!("{}::to_scale_rotation_translation(translation)", <$T as Hom3>::NAME), format!("{} got={:?}", ctx(), t2f)); }
                let q2a = q2.to_array();
                let q2f = [q2a[0] as f64, q2a[1] as f64, q2a[2] as f64, q2a[3] as f64];
                env(acc, &format!("{}::to_scale_rotation_translation(unit rotation)", <$T as Hom3>::NAME), norm(&q2f), 1.0, 4.0 * eps, &ctx);
                let s2f = [s2.x as f64, s2.y as f64, s2.z as f64];
                let det_sign = (ss[0] * ss[1] * ss[2]).signum();
                if s2f[0].signum() != det_sign || s2f[1] < 0.0 || s2f[2] < 0.0 { acc.fail(&format!("{}::to_scale_rotation_translation(sign rule)", <$T as Hom3>::NAME), format!("{} got scale={:?} (negative determinant must be reported as a negative x scale)", ctx(), s2f)); }
                for i in 0..3 { env(acc, &format!("{}::to_scale_rotation_translation(scale magnitude)", <$T as Hom3>::NAME), s2f[i].abs(), ss[i].abs(), 16.0 * eps * ss[i].abs(), &ctx); }
                let back = trs3(&s2f, &qmat(&qnormalize(&q2f)), &t2f);
                env_vec(acc, &format!("{}::to_scale_rotation_translation(recompose)", <$T as Hom3>::NAME), back.cols(), mh.cols(), &bound_trs(4, &mh, 32.0, eps, &ss), &|| format!("{} decomposed into scale={:?} rotation={:?}", ctx(), s2f, q2f));
            )*
        });
    }};
}

macro_rules! srt2 {
    ($rep:ident, $S:ident, $eps:expr, $V2:ident, $M2:ident, [$($T:ident),*], [$($A:ident),*]) => {{
        let eps: f64 = $eps;
        let nang: u64 = if $rep.thorough() { 256 } else { 64 };
        $rep.sweep(&format!("{}/2-D SRT/196 scales x {nang} angles x 5 translations", stringify!($S)), 196 * nang * 5, |idx, acc| {
            let d = digits(idx, [7, 7, 4, nang, 5]);
            let sf = [MAGS[d[0]] * if d[2] & 1 == 1 { -1.0 } else { 1.0 }, MAGS[d[1]] * if d[2] & 2 == 2 { -1.0 } else { 1.0 }];
            // one turn densely, plus angles of several and of many turns in the last six slots
            let big = [7.0, -9.5, 12.566371, 100.0, -1e3, 1e4];
            let ang = if d[3] as u64 + 6 >= nang { big[(d[3] as u64 + 6 - nang) as usize] } else { -3.1 + 6.2 * d[3] as f64 / nang as f64 + 0.003 } as $S;
            let tf = TRANS[d[4]];
            let s = <$V2>::new(sf[0] as $S, sf[1] as $S);
            let t = <$V2>::new(tf[0] as $S, tf[1] as $S);
            let ss = [s.x as f64, s.y as f64];
            let ts = [t.x as f64, t.y as f64];
            let want = trs2(&ss, ang as f64, &ts);
            let ctx = || format!("scale={:?} angle={:e} translation={:?}", ss, ang, ts);
            $(
                let m = <$T>::from_scale_angle_translation(s, ang, t);
                acc.eval(true, m.hom().a[1].to_bits());
                env_vec(acc, &format!("{}::from_scale_angle_translation", <$T as Hom2>::NAME), m.hom().cols(), want.cols(), &bound_trs(3, &want, 8.0, eps, &ss), &ctx);
                let prod = <$T>::from_translation(t) * <$T>::from_angle(ang) * <$T>::from_scale(s);
                env_vec(acc, &format!("{}::from_translation*from_angle*from_scale", <$T as Hom2>::NAME), prod.hom().cols(), want.cols(), &bound_trs(3, &want, 12.0, eps, &ss), &ctx);
            )*
            // Mat2::from_scale_angle = upper-left block
            let m2 = <$M2>::from_scale_angle(s, ang);
            let c2: Vec<f64> = m2.to_cols_array().iter().map(|x| *x as f64).collect();
            env_vec(acc, &format!("{}::from_scale_angle", stringify!($M2)), &c2, &[want.at(0, 0), want.at(1, 0), want.at(0, 1), want.at(1, 1)], &[8.0 * eps * ss[0].abs(), 8.0 * eps * ss[0].abs(), 8.0 * eps * ss[1].abs(), 8.0 * eps * ss[1].abs()], &ctx);
            $(
                // affine-only constructors and the decomposition
                let a_at = <$A>::from_angle_translation(ang, t);
                let want_at = trs2(&[1.0, 1.0], ang as f64, &ts);
                env_vec(acc, &format!("{}::from_angle_translation", <$A as Hom2>::NAME), a_at.hom().cols(), want_at.cols(), &bound_trs(3, &want_at, 8.0, eps, &[1.0, 1.0]), &ctx);
                let a_mt = <$A>::from_mat2_translation(m2, t);
                let mut wmt = Mx::ident(3);
                for c in 0..2 { for r in 0..2 { wmt.set(r, c, c2[c * 2 + r]); } wmt.set(c, 2, ts[c]); }
                if a_mt.hom().cols() != wmt.cols() { acc.fail(&format!("{}::from_mat2_translation", <$A as Hom2>::NAME), format!("{} got={:?}", ctx(), a_mt.hom().cols())); }
                let a = <$A>::from_scale_angle_translation(s, ang, t);
                let (s2, ang2, t2) = a.to_scale_angle_translation();
                let ah = a.hom();
                if [t2.x as f64, t2.y as f64] != [ah.at(0, 2), ah.at(1, 2)] { acc.fail(&format!("{}::to_scale_angle_translation(translation)", <$A as Hom2>::NAME), ctx()); }
                let s2f = [s2.x as f64, s2.y as f64];
                let det_sign = (ss[0] * ss[1]).signum();
                if s2f[0].signum() != det_sign || s2f[1] < 0.0 { acc.fail(&format!("{}::to_scale_angle_translation(sign rule)", <$A as Hom2>::NAME), format!("{} got scale={:?}", ctx(), s2f)); }
                let back = trs2(&s2f, ang2 as f64, &[t2.x as f64, t2.y as f64]);
                acc.eval(true, (ang2 as f64).to_bits());
                env_vec(acc, &format!("{}::to_scale_angle_translation(recompose)", <$A as Hom2>::NAME), back.cols(), ah.cols(), &bound_trs(3, &ah, 32.0, eps, &ss), &|| format!("{} decomposed into scale={:?} angle={:e}", ctx(), s2f, ang2));
            )*
        });
    }};
}

fn main() {
    let mut rep = Report::new("C10", "exploration");
    silence_panics();
    rep.rule("cases = (type, scale from {1e-3,.5,1-5e-5,1,1+3e-5,2,1e3}^n x all 2^n sign patterns, rotation from a ROT sub-family covering all matrix->quaternion branches / angle grid in 2-D, 5 translations): constructors vs the f64 product T*R*S of the stored parameters (translation column bit-exact, linear block within K*eps*|scale|), product of elementary constructors, decomposition: translation = last column (bits), unit rotation, sign(scale.x) = sign(det), |scale| recovered, recomposition reproduces the matrix; every case non-trivial");
    srt3!(rep, f32, EPS32, Quat, Vec3, Mat3, [Mat4, Affine3A]);
    srt3!(rep, f64, EPS64, DQuat, DVec3, DMat3, [DMat4, DAffine3]);
    srt2!(rep, f32, EPS32, Vec2, Mat2, [Mat3, Mat3A, Affine2], [Affine2]);
    srt2!(rep, f64, EPS64, DVec2, DMat2, [DMat3, DAffine2], [DAffine2]);
    rep.sample(json!({"type": "Affine3A", "scale": [-1e-3, 2.0, -0.5], "rotation": "half-turn about (1,-1,0)/sqrt2 (trace <= 0 branch)", "translation": [1e3, 0.25, -7.5], "checks": "compose vs T*R*S, decompose: sign rule, recomposition"}));
    std::process::exit(rep.finish());
}
