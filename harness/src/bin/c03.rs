//! C03 — matrix algebra: product, transpose, determinant and inverse are the true ones (E1).
//! Layer 1: exhaustive small-integer grids, exact integer reference (polynomial identity test).
//! Layer 2: real matrices (signed permutations, orthogonal x diagonal x orthogonal with known
//! condition number, Hilbert, Vandermonde) against f64 references with a-priori error envelopes.
#![allow(clippy::all)]
use glam::*;
use harness::flat::*;
use harness::mat::*;
use harness::refm::*;
use harness::rep::*;
use serde_json::json;

fn is32<M: MatT>() -> bool {
    <M::S as Sc>::NAME == "f32"
}
/// lane arithmetic in the matrix's own precision
fn lane_op<M: MatT>(x: f64, y: f64, op: u8) -> f64 {
    if is32::<M>() {
        let (a, b) = (x as f32, y as f32);
        (match op {
            0 => a + b,
            1 => a - b,
            2 => a * b,
            _ => a / b,
        }) as f64
    } else {
        match op {
            0 => x + y,
            1 => x - y,
            2 => x * y,
            _ => x / y,
        }
    }
}

fn grid_matrix(n: usize, mut idx: u64, base: u64, lo: i128) -> Vec<i128> {
    let mut v = vec![0i128; n * n];
    for k in 0..n * n {
        v[k] = (idx % base) as i128 + lo;
        idx /= base;
    }
    v
}
fn to_f(v: &[i128]) -> Vec<f64> {
    v.iter().map(|x| *x as f64).collect()
}

/// determinant / transpose / adjugate on an integer grid: exact
fn int_unary<M: MatT>(rep: &mut Report, base: u64, lo: i128) {
    let n = M::N;
    let size = base.pow((n * n) as u32);
    let tn = M::NAME;
    rep.sweep(&format!("{tn}/det,transpose,adjugate/entries in [{lo},{}]^{}", lo + base as i128 - 1, n * n), size, |idx, acc| {
        let a = grid_matrix(n, idx, base, lo);
        let m = M::from_f64(&to_f(&a));
        let det = det_i(n, &a);
        let g = m.determinant_();
        let nz = a.iter().filter(|x| **x != 0).count() > n;
        acc.eval(nz && det != 0, g.to_bits());
        if g != det as f64 {
            acc.fail(&format!("{tn}::determinant"), format!("m={:?} got={} want={}", a, g, det));
        }
        let t = m.transpose_().cols();
        let ok = (0..n * n).all(|k| t[k] == a[(k % n) * n + k / n] as f64);
        acc.eval(nz, t[1].to_bits());
        if !ok {
            acc.fail(&format!("{tn}::transpose"), format!("m={:?} got={:?}", a, t));
        }
        if det != 0 {
            let inv = m.inverse_().cols();
            let adj = adj_i(n, &a);
            let mut ok = true;
            for k in 0..n * n {
                let want = adj[k] as f64;
                let got = inv[k] * det as f64;
                let b = 2.0 * M::eps() * want.abs();
                let e = (got - want).abs();
                if e > b {
                    ok = false;
                } else if b > 0.0 {
                    acc.ratio(e / b);
                }
            }
            acc.eval(nz, inv[0].to_bits() ^ inv[n * n - 1].to_bits().rotate_left(17));
            if !ok {
                acc.fail(&format!("{tn}::inverse"), format!("m={:?} det={} inverse*det={:?} adjugate={:?}", a, det, inv.iter().map(|x| x * det as f64).collect::<Vec<_>>(), adj));
            }
        }
    });
}

/// products on integer grids: exact
fn int_products<M: MatT>(rep: &mut Report, name: &str, count: u64, gen: impl Fn(u64) -> (Vec<i128>, Vec<i128>, Vec<i128>) + Sync) {
    let n = M::N;
    let tn = M::NAME;
    rep.sweep(&format!("{tn}/products/{name}"), count, |idx, acc| {
        let (a, b, v) = gen(idx);
        let (ma, mb) = (M::from_f64(&to_f(&a)), M::from_f64(&to_f(&b)));
        let want = mul_i(n, &a, &b);
        let nz = a.iter().any(|x| *x != 0) && b.iter().any(|x| *x != 0);
        for (site, g) in [("mul", ma.mul_(&mb)), ("mul_mat", ma.mul_method(&mb)), ("mul_assign", ma.mul_assign_(&mb)), ("product", M::product_(&[ma, mb]))] {
            let g = g.cols();
            acc.eval(nz, g[0].to_bits() ^ g[n * n - 1].to_bits().rotate_left(13));
            if !(0..n * n).all(|k| g[k] == want[k] as f64) {
                acc.fail(&format!("{tn}::{site}"), format!("A={:?} B={:?} got={:?} want={:?}", a, b, g, want));
            }
        }
        let vv: M::Col = build_f64(&to_f(&v));
        let mut wv = vec![0i128; n];
        for r in 0..n {
            for c in 0..n {
                wv[r] += a[c * n + r] * v[c];
            }
        }
        for (site, g) in [("mul_vec", ma.mul_vec_(vv)), ("mul_vec_method", ma.mul_vec_method(vv))] {
            let g = f64s(&g);
            acc.eval(nz && v.iter().any(|x| *x != 0), g[0].to_bits());
            if !(0..n).all(|k| g[k] == wv[k] as f64) {
                acc.fail(&format!("{tn}::{site}"), format!("A={:?} v={:?} got={:?} want={:?}", a, v, g, wv));
            }
        }
        // add / sub / neg / scalar: entrywise, exact on integers
        let s = v[0] as f64;
        let checks: Vec<(&str, Vec<f64>, Vec<f64>)> = vec![
            ("add", ma.add_(&mb).cols(), (0..n * n).map(|k| (a[k] + b[k]) as f64).collect()),
            ("add_mat", ma.add_method(&mb).cols(), (0..n * n).map(|k| (a[k] + b[k]) as f64).collect()),
            ("sub", ma.sub_(&mb).cols(), (0..n * n).map(|k| (a[k] - b[k]) as f64).collect()),
            ("sub_mat", ma.sub_method(&mb).cols(), (0..n * n).map(|k| (a[k] - b[k]) as f64).collect()),
            ("neg", ma.neg_().cols(), (0..n * n).map(|k| (-a[k]) as f64).collect()),
            ("mul_scalar", ma.mul_scalar_(s).cols(), (0..n * n).map(|k| a[k] as f64 * s).collect()),
            ("scalar_mul", ma.scalar_mul_(s).cols(), (0..n * n).map(|k| a[k] as f64 * s).collect()),
            ("mul_scalar_method", ma.mul_scalar_method(s).cols(), (0..n * n).map(|k| a[k] as f64 * s).collect()),
            ("sum", M::sum_(&[ma, mb, ma]).cols(), (0..n * n).map(|k| (2 * a[k] + b[k]) as f64).collect()),
        ];
        for (site, g, w) in checks {
            acc.eval(nz, g[0].to_bits() ^ g[n * n - 1].to_bits().rotate_left(7));
            if g != w {
                acc.fail(&format!("{tn}::{site}"), format!("A={:?} B={:?} s={} got={:?} want={:?}", a, b, s, g, w));
            }
        }
        // negation flips every entry *exactly* (a zero entry becomes -0) and transposition moves bits
        {
            let (src, gn, gt) = (ma.cols(), ma.neg_().cols(), ma.neg_().transpose_().cols());
            for c in 0..n {
                for r in 0..n {
                    if gn[c * n + r].to_bits() != (-src[c * n + r]).to_bits() { acc.fail(&format!("{tn}::neg(bit-exact)"), format!("A={:?} entry ({r},{c}): got={:?} want={:?}", a, gn[c * n + r], -src[c * n + r])); }
                    if gt[r * n + c].to_bits() != gn[c * n + r].to_bits() { acc.fail(&format!("{tn}::transpose(bit-exact)"), format!("A={:?} entry ({r},{c}) of -A: got={:?} want={:?}", a, gt[r * n + c], gn[c * n + r])); }
                }
            }
        }
    });
}

// ------------------------------------------------------------------------------------------ layer 2
fn givens(n: usize, i: usize, j: usize, th: f64) -> Mx {
    let mut g = Mx::ident(n);
    let (s, c) = th.sin_cos();
    g.set(i, i, c);
    g.set(j, j, c);
    g.set(i, j, -s);
    g.set(j, i, s);
    g
}
const ANG: [f64; 6] = [0.3, 1.1, 2.0, -0.7, 2.9, -1.9];
/// k-th orthogonal matrix of size n (product of Givens rotations over all planes)
fn ortho(n: usize, k: usize) -> Mx {
    let mut q = Mx::ident(n);
    let mut t = k;
    for i in 0..n {
        for j in i + 1..n {
            q = q.mul(&givens(n, i, j, ANG[t % 6] * (1.0 + 0.1 * (t / 6 % 3) as f64)));
            t = t / 2 + 3 * (i + j + 1) + k;
        }
    }
    q
}
fn signed_perm(n: usize, mut k: usize) -> Mx {
    // k indexes (permutation, sign pattern)
    let mut items: Vec<usize> = (0..n).collect();
    let mut m = Mx::zero(n);
    let signs = k % (1 << n);
    k /= 1 << n;
    for c in 0..n {
        let i = k % items.len();
        k /= items.len();
        let r = items.remove(i);
        m.set(r, c, if signs >> c & 1 == 1 { -1.0 } else { 1.0 });
    }
    m
}
fn nperm(n: usize) -> usize {
    (1..=n).product::<usize>() << n
}
fn hilbert(n: usize) -> Mx {
    let mut m = Mx::zero(n);
    for r in 0..n {
        for c in 0..n {
            m.set(r, c, 1.0 / (r + c + 1) as f64);
        }
    }
    m
}
fn vander(n: usize, nodes: &[f64]) -> Mx {
    let mut m = Mx::zero(n);
    for r in 0..n {
        for c in 0..n {
            m.set(r, c, nodes[r].powi(c as i32));
        }
    }
    m
}
/// the layer-2 family: index -> reference matrix (entries are rounded to the type before use)
fn family<M: MatT>(thorough: bool) -> Vec<(String, Mx)> {
    let n = M::N;
    let mut v = vec![];
    for k in 0..nperm(n) {
        for (si, s) in [1.0, 2f64.powi(-13), 2f64.powi(13)].iter().enumerate() {
            if si > 0 && k % 7 != 0 {
                continue;
            }
            v.push((format!("signed-perm#{k}*{s}"), signed_perm(n, k).scale(*s)));
        }
    }
    let conds: &[f64] = if is32::<M>() { &[1.0, 10.0, 1e2, 1e3, 1e4] } else { &[1.0, 1e2, 1e4, 1e7, 1e10] };
    let nq = if thorough { 12 } else { 6 };
    for q1 in 0..nq {
        for q2 in 0..nq {
            for (ci, cnd) in conds.iter().enumerate() {
                let mut d = Mx::zero(n);
                for i in 0..n {
                    // singular values from 1 down to 1/cond, alternating sign
                    let t = i as f64 / (n - 1) as f64;
                    d.set(i, i, cnd.powf(-t) * if (i + ci) % 2 == 0 { 1.0 } else { -1.0 });
                }
                let m = ortho(n, q1).mul(&d).mul(&ortho(n, q2 + 17).transpose());
                let sc = [1.0, 37.5, 2f64.powi(-9)][(q1 + q2 + ci) % 3];
                v.push((format!("Q{q1}*D(cond {cnd})*Q{q2}^T*{sc}"), m.scale(sc)));
            }
        }
    }
    for s in [1.0, 2f64.powi(-10), 1024.0] {
        v.push((format!("hilbert*{s}"), hilbert(n).scale(s)));
        v.push((format!("vandermonde(1,2,3,4)*{s}"), vander(n, &[1.0, 2.0, 3.0, 4.0]).scale(s)));
        v.push((format!("vandermonde(-1,.5,2,3)*{s}"), vander(n, &[-1.0, 0.5, 2.0, 3.0]).scale(s)));
    }
    v
}

fn real_checks<M: MatT>(rep: &mut Report) {
    let n = M::N;
    let tn = M::NAME;
    let eps = M::eps();
    let fam: Vec<(String, M, Mx)> = family::<M>(rep.thorough())
        .into_iter()
        .map(|(name, mx)| {
            let m = M::from_f64(mx.cols());
            let r = m.mx(); // reference = the stored (rounded) entries
            (name, m, r)
        })
        .collect();
    let cond_limit = if is32::<M>() { 2e4 } else { 2e10 };
    let nf = fam.len() as u64;
    let famr = &fam;
    rep.sweep(&format!("{tn}/real/det,inverse,transpose ({nf} matrices)"), nf, |idx, acc| {
        let (name, m, r) = &famr[idx as usize];
        let ctx = || format!("matrix {name} = {:?}", r.cols());
        let (det, sdet) = r.det_scale();
        let kd = 4.0 * n as f64;
        acc.eval(true, m.determinant_().to_bits());
        env(acc, &format!("{tn}::determinant"), m.determinant_(), det, kd * eps * sdet, &ctx);
        let t = m.transpose_().cols();
        if t != r.transpose().cols() {
            acc.fail(&format!("{tn}::transpose"), ctx());
        }
        let inv_ref = r.inverse();
        let kappa = r.fro() * inv_ref.fro();
        if det != 0.0 && kappa.is_finite() && kappa <= cond_limit {
            acc.branch("inverse checked");
            let inv = m.inverse_();
            let g = inv.mx();
            let (adj, sadj) = r.adj();
            // forward envelope of adj/det: K eps (S_adj/|det| + |inv| S_det/|det|)
            let mut e = Mx::zero(n);
            for k in 0..n * n {
                e.a[k] = kd * eps * (sadj.a[k] / det.abs() + inv_ref.a[k].abs() * sdet / det.abs()) + f64::MIN_POSITIVE;
            }
            let _ = adj;
            acc.eval(true, g.a[0].to_bits());
            env_vec(acc, &format!("{tn}::inverse"), g.cols(), inv_ref.cols(), e.cols(), &ctx);
            // residuals M*inv - I and inv*M - I, with the implementation's own product
            for (site, p, bound) in [
                ("inverse(M*inv=I)", m.mul_(&inv).mx(), abs(r).mul(&e)),
                ("inverse(inv*M=I)", inv.mul_(m).mx(), e.mul(&abs(r))),
            ] {
                let id = Mx::ident(n);
                let mut b = bound;
                let pa = abs(r).mul(&abs(&inv_ref));
                for k in 0..n * n {
                    b.a[k] += 2.0 * n as f64 * eps * pa.a[k];
                }
                env_vec(acc, &format!("{tn}::{site}"), p.cols(), id.cols(), b.cols(), &ctx);
            }
        } else {
            acc.branch("inverse skipped (ill-conditioned/singular)");
        }
    });
    // products: all pairs of a sub-family
    let step = (fam.len() / if rep.thorough() { 96 } else { 40 }).max(1);
    let sub: Vec<usize> = (0..fam.len()).step_by(step).collect();
    let ns = sub.len() as u64;
    let subr = &sub;
    rep.sweep(&format!("{tn}/real/products, all pairs of {ns} matrices"), ns * ns, |idx, acc| {
        let (_, ma, ra) = &famr[subr[(idx % ns) as usize]];
        let (_, mb, rb) = &famr[subr[(idx / ns) as usize]];
        let ctx = || format!("A={:?} B={:?}", ra.cols(), rb.cols());
        let want = ra.mul(rb);
        let sc = ra.mul_abs(rb);
        let k = 2.0 * n as f64;
        let bound: Vec<f64> = sc.cols().iter().map(|s| k * eps * s).collect();
        for (site, g) in [("mul", ma.mul_(mb)), ("mul_mat", ma.mul_method(mb))] {
            acc.eval(true, g.cols()[0].to_bits());
            env_vec(acc, &format!("{tn}::{site}"), &g.cols(), want.cols(), &bound, &ctx);
        }
        // M * v with v = first column of B
        let v: Vec<f64> = rb.cols()[..n].to_vec();
        let vv: M::Col = build_f64(&v);
        let g = f64s(&ma.mul_vec_(vv));
        let wv = ra.mulv(&v);
        let bv: Vec<f64> = ra.mulv_abs(&v).iter().map(|s| k * eps * s).collect();
        acc.eval(true, g[0].to_bits());
        env_vec(acc, &format!("{tn}::mul_vec"), &g, &wv, &bv, &ctx);
        // entrywise ops are single roundings: exact agreement with the lane arithmetic
        let s = rb.cols()[1];
        let sa = if is32::<M>() { s as f32 as f64 } else { s };
        let checks: Vec<(&str, Vec<f64>, u8, bool)> = vec![
            ("add", ma.add_(mb).cols(), 0, false),
            ("sub", ma.sub_(mb).cols(), 1, false),
            ("mul_scalar", ma.mul_scalar_(sa).cols(), 2, true),
            ("scalar_mul", ma.scalar_mul_(sa).cols(), 2, true),
        ];
        for (site, g, op, scalar) in checks {
            let ok = (0..n * n).all(|k| {
                let w = lane_op::<M>(ra.a[k], if scalar { sa } else { rb.a[k] }, op);
                g[k] == w || (g[k].is_nan() && w.is_nan())
            });
            acc.eval(true, g[0].to_bits());
            if !ok {
                acc.fail(&format!("{tn}::{site}"), format!("{} s={} got={:?}", ctx(), sa, g));
            }
        }
        // division by a scalar may be implemented as multiplication by the reciprocal: 1.5 eps
        if sa != 0.0 {
            let g = ma.div_scalar_(sa).cols();
            let g2 = ma.div_scalar_method(sa).cols();
            let w: Vec<f64> = (0..n * n).map(|k| ra.a[k] / sa).collect();
            let b: Vec<f64> = w.iter().map(|x| 1.5 * eps * x.abs() + f64::MIN_POSITIVE * 4.0).collect();
            acc.eval(true, g[0].to_bits());
            env_vec(acc, &format!("{tn}::div_scalar"), &g, &w, &b, &ctx);
            env_vec(acc, &format!("{tn}::div_scalar_method"), &g2, &w, &b, &ctx);
        }
        let g = ma.neg_().cols();
        if !(0..n * n).all(|k| g[k] == -ra.a[k]) {
            acc.fail(&format!("{tn}::neg"), ctx());
        }
    });
}
fn abs(m: &Mx) -> Mx {
    let mut r = *m;
    for k in 0..16 {
        r.a[k] = r.a[k].abs();
    }
    r
}

fn run<M: MatT>(rep: &mut Report) {
    let n = M::N;
    let th = rep.thorough();
    match n {
        2 => {
            int_unary::<M>(rep, 17, -8);
            // all pairs of [-2,2]^4, vector from the first column pattern
            int_products::<M>(rep, "all pairs of [-2,2]^4", 625 * 625, |idx| {
                let a = grid_matrix(2, idx % 625, 5, -2);
                let b = grid_matrix(2, idx / 625, 5, -2);
                let v = vec![b[0] + a[3], b[3] - 1];
                (a, b, v)
            });
        }
        3 => {
            int_unary::<M>(rep, 5, -2);
            int_products::<M>(rep, "all pairs of {0,1}^9", 512 * 512, |idx| {
                let a = grid_matrix(3, idx % 512, 2, 0);
                let b = grid_matrix(3, idx / 512, 2, 0);
                let v = vec![b[0] - a[4], 2 * b[8] - 1, a[2] + 1];
                (a, b, v)
            });
            let cnt = if th { 1_953_125u64 } else { 1_953_125 / 16 };
            int_products::<M>(rep, "[-2,2]^9 (x) 8 dense partners, both orders", cnt * 16, move |idx| {
                let k = (idx % 16) as usize;
                let ai = if th { idx / 16 } else { (idx / 16) * 16 + 7 };
                let a = grid_matrix(3, ai, 5, -2);
                let d: [[i128; 9]; 8] = [
                    [1, 2, -1, 3, 1, 2, -2, 1, 3],
                    [2, -1, 3, 1, 1, -2, 3, 2, 1],
                    [-1, 1, 2, 2, -3, 1, 1, 2, -2],
                    [3, 1, 1, -1, 2, 3, 2, -1, 1],
                    [1, -2, 2, 3, 1, -1, -1, 3, 2],
                    [2, 3, -1, -2, 1, 1, 1, -1, 3],
                    [-3, 1, 2, 1, 2, -1, 2, 1, 1],
                    [1, 1, -3, 2, -1, 2, 3, 1, -1],
                ];
                let b = d[k % 8].to_vec();
                let v = vec![d[(k + 3) % 8][0], d[(k + 3) % 8][4], d[(k + 3) % 8][8]];
                if k < 8 {
                    (a, b, v)
                } else {
                    (b, a, v)
                }
            });
        }
        _ => {
            if th {
                int_unary::<M>(rep, 3, -1);
            } else {
                int_unary::<M>(rep, 2, 0);
            }
            // basis matrices +-E_ij against the dense {0,1} grid, both orders
            int_products::<M>(rep, "(+-E_ij) x {0,1}^16, both orders", 32 * 2 * 65536, |idx| {
                let g = grid_matrix(4, idx % 65536, 2, 0);
                let e = (idx / 65536) % 32;
                let order = idx / 65536 / 32;
                let mut b = vec![0i128; 16];
                b[(e % 16) as usize] = if e < 16 { 1 } else { -1 };
                let v = vec![1, -2, 3, if e % 2 == 0 { 1 } else { -1 }];
                if order == 0 {
                    (b, g, v)
                } else {
                    (g, b, v)
                }
            });
            // all pairs of a sub-grid of dense {-1,0,1,2} matrices
            let m: u64 = if th { 4096 } else { 384 };
            int_products::<M>(rep, &format!("all pairs of a {m}-matrix sub-grid of [-1,2]^16"), m * m, move |idx| {
                let sub = |k: u64| grid_matrix(4, k.wrapping_mul(1_048_573).wrapping_add(k * k * 7919) % 4_294_967_296, 4, -1);
                let a = sub(idx % m);
                let b = sub(idx / m + 100_000);
                let v = vec![a[5] + 1, b[10] - 1, a[15] + b[0], 2];
                (a, b, v)
            });
        }
    }
    real_checks::<M>(rep);
}

/// Mat3 and Mat3A each multiply both 3-vector types; every form is the exact integer product
fn other_vector_type(rep: &mut Report) {
    rep.sweep("Mat3,Mat3A/matrix*vector with either 3-vector type/512 grid matrices x [-2,2]^3 vectors", 512 * 125, |idx, acc| {
        let a = grid_matrix(3, (idx / 125).wrapping_mul(7919).wrapping_add(idx / 125 * 37) % 1_953_125, 5, -2);
        let mut q = idx % 125;
        let v: Vec<i128> = (0..3).map(|_| { let x = (q % 5) as i128 - 2; q /= 5; x }).collect();
        let mut want = [0f32; 3];
        for r in 0..3 { let mut t = 0i128; for c in 0..3 { t += a[c * 3 + r] * v[c]; } want[r] = t as f32; }
        let arr: [f32; 9] = core::array::from_fn(|k| a[k] as f32);
        let vf: [f32; 3] = core::array::from_fn(|k| v[k] as f32);
        let (m, ma) = (Mat3::from_cols_array(&arr), Mat3A::from_cols_array(&arr));
        let (v3, v3a) = (Vec3::from_array(vf), <Vec3A as Flat>::build(&vf));
        acc.eval(a.iter().filter(|x| **x != 0).count() > 3 && v.iter().any(|x| *x != 0), idx);
        for (site, got) in [
            ("Mat3::mul_vec3", m.mul_vec3(v3).to_array()), ("Mat3 * Vec3", (m * v3).to_array()), ("Mat3::mul_vec3a", m.mul_vec3a(v3a).to_array()), ("Mat3 * Vec3A", (m * v3a).to_array()),
            ("Mat3A::mul_vec3", ma.mul_vec3(v3).to_array()), ("Mat3A * Vec3", (ma * v3).to_array()), ("Mat3A::mul_vec3a", ma.mul_vec3a(v3a).to_array()), ("Mat3A * Vec3A", (ma * v3a).to_array()),
        ] {
            if got != want { acc.fail(site, format!("A={:?} v={:?} got={:?} want={:?}", a, v, got, want)); }
        }
    });
}

fn main() {
    let mut rep = Report::new("C03", "exploration");
    silence_panics();
    rep.rule("layer 1: every matrix of the stated integer grid (2x2: [-8,8]^4; 3x3: [-2,2]^9; 4x4: {0,1}^16 quick / {-1,0,1}^16 thorough) for determinant (exact), transpose (exact), inverse*det = integer adjugate (2 eps) and det = 0 exactly on singular ones; products on complete pair grids, exact; a case is non-trivial if the matrix has more than n non-zero entries (and det != 0 for the determinant count). layer 2: signed permutations, Q*D*Q^T with prescribed condition number, Hilbert, Vandermonde at three scalings vs f64 reference within K*eps*S (S = sum of |terms|), inverse vs adj/det envelope and both residuals");
    run::<Mat2>(&mut rep);
    run::<Mat3>(&mut rep);
    run::<Mat3A>(&mut rep);
    run::<Mat4>(&mut rep);
    run::<DMat2>(&mut rep);
    run::<DMat3>(&mut rep);
    run::<DMat4>(&mut rep);
    other_vector_type(&mut rep);
    rep.sample(json!({"space": "Mat4/det,transpose,adjugate", "matrix_cols": [1, 0, 1, 1, 0, 1, 1, 0, 1, 1, 0, 1, 0, 1, 1, 1], "oracle": "i128 Laplace expansion; inverse*det == adjugate within 2 eps"}));
    rep.sample(json!({"space": "Mat3A/real", "matrix": "Q3*D(cond 1e3)*Q5^T*37.5", "oracle": "f64 adj/det, envelope K eps (S_adj/|det| + |inv| S_det/|det|), residuals M*inv-I, inv*M-I"}));
    // every operator trait impl of the tree (inventory from the rustdoc JSON): reference, assign and
    // scalar forms agree with the by-value form decided above
    harness::opforms::run(&mut rep, "mat", harness::opforms::OPFORMS_MAT);
    std::process::exit(rep.finish());
}
