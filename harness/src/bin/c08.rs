//! C08 — the unused fourth lane of Vec3A / Mat3A / Affine3A / BVec3A never influences a result.
//! Engine E2 (stateright), non-interference by self-composition: a state is a *twin pair* of real
//! registers with bit-identical visible lanes and different hidden lanes; every action applies the
//! same public operation to both twins (other register operands also come as twins); all
//! non-register observations must be bit-identical and the visible lanes of register results must
//! stay bit-identical. Register results become the next twin pair (depth-bounded BFS).
#![allow(clippy::all)]
use glam::*;
use harness::mc::run_bfs;
use harness::rep::*;
use harness::catch;
use serde_json::json;
use stateright::{Model, Property};
use std::hash::{Hash, Hasher};

#[cfg(feature = "scalar")]
fn main() {
    eprintln!("C08 does not apply to scalar-math builds (no hidden lane)");
    std::process::exit(2);
}

// ---------------------------------------------------------------------------------- registers
#[derive(Clone, Copy, Debug, PartialEq, Eq, Hash)]
enum Reg {
    V([u32; 4]),
    M([u32; 12]),
    A([u32; 16]),
    B([u32; 4]),
}
#[cfg(not(feature = "scalar"))]
mod imp {
    use super::*;

    pub fn v_raw(v: Vec3A) -> [u32; 4] {
        unsafe { std::mem::transmute(v) }
    }
    pub fn v_un(r: [u32; 4]) -> Vec3A {
        unsafe { std::mem::transmute(r) }
    }
    pub fn m_raw(m: Mat3A) -> [u32; 12] {
        unsafe { std::mem::transmute(m) }
    }
    pub fn m_un(r: [u32; 12]) -> Mat3A {
        unsafe { std::mem::transmute(r) }
    }
    pub fn a_raw(m: Affine3A) -> [u32; 16] {
        unsafe { std::mem::transmute(m) }
    }
    pub fn a_un(r: [u32; 16]) -> Affine3A {
        unsafe { std::mem::transmute(r) }
    }
    pub fn b_raw(m: BVec3A) -> [u32; 4] {
        unsafe { std::mem::transmute(m) }
    }
    pub fn b_un(r: [u32; 4]) -> BVec3A {
        unsafe { std::mem::transmute(r) }
    }

    /// visible part of a register (hidden lanes masked out)
    pub fn visible(r: &Reg) -> Vec<u32> {
        match r {
            Reg::V(x) | Reg::B(x) => x[..3].to_vec(),
            Reg::M(x) => x.chunks(4).flat_map(|c| c[..3].to_vec()).collect(),
            Reg::A(x) => x.chunks(4).flat_map(|c| c[..3].to_vec()).collect(),
        }
    }

    // ------------------------------------------------------------------------------ observations
    pub trait Obs {
        fn obs(&self, out: &mut Vec<u64>);
    }
    macro_rules! obs_prim {
        ($($t:ty => $e:expr),*) => {$( impl Obs for $t { fn obs(&self, out: &mut Vec<u64>) { let f: fn(&$t) -> u64 = $e; out.push(f(self)); } } )*};
    }
    obs_prim!(f32 => |x| x.to_bits() as u64, f64 => |x| x.to_bits(), bool => |x| *x as u64, u32 => |x| *x as u64, usize => |x| *x as u64,
        i8 => |x| *x as u64, u8 => |x| *x as u64, i16 => |x| *x as u64, u16 => |x| *x as u64, i32 => |x| *x as u64, i64 => |x| *x as u64, u64 => |x| *x);
    impl Obs for String {
        fn obs(&self, out: &mut Vec<u64>) {
            let mut h = std::collections::hash_map::DefaultHasher::new();
            self.hash(&mut h);
            out.push(h.finish());
        }
    }
    impl<T: Obs, const N: usize> Obs for [T; N] {
        fn obs(&self, out: &mut Vec<u64>) {
            for x in self {
                x.obs(out);
            }
        }
    }
    impl<T: Obs> Obs for Option<T> {
        fn obs(&self, out: &mut Vec<u64>) {
            match self {
                Some(x) => {
                    out.push(1);
                    x.obs(out)
                }
                None => out.push(0),
            }
        }
    }
    impl<A: Obs, B: Obs> Obs for (A, B) {
        fn obs(&self, out: &mut Vec<u64>) {
            self.0.obs(out);
            self.1.obs(out);
        }
    }
    impl<A: Obs, B: Obs, C: Obs> Obs for (A, B, C) {
        fn obs(&self, out: &mut Vec<u64>) {
            self.0.obs(out);
            self.1.obs(out);
            self.2.obs(out);
        }
    }
    impl<A: Obs, B: Obs, C: Obs, D: Obs> Obs for (A, B, C, D) {
        fn obs(&self, out: &mut Vec<u64>) {
            self.0.obs(out);
            self.1.obs(out);
            self.2.obs(out);
            self.3.obs(out);
        }
    }
    macro_rules! obs_arr {
        ($($t:ty),*) => {$( impl Obs for $t { fn obs(&self, out: &mut Vec<u64>) { self.to_array().obs(out) } } )*};
    }
    obs_arr!(Vec2, Vec3, Vec4, DVec3, I8Vec3, U8Vec3, I16Vec3, U16Vec3, IVec3, UVec3, I64Vec3, U64Vec3, USizeVec3, Quat);
    macro_rules! obs_cols {
        ($($t:ty),*) => {$( impl Obs for $t { fn obs(&self, out: &mut Vec<u64>) { self.to_cols_array().obs(out) } } )*};
    }
    obs_cols!(Mat2, Mat3, Mat4, DMat3, DAffine3, Affine2);
    impl Obs for BVec3 {
        fn obs(&self, out: &mut Vec<u64>) {
            out.push(self.bitmask() as u64)
        }
    }
    /// registers observed through their visible lanes only (raw bits, not through the API under test)
    impl Obs for Vec3A {
        fn obs(&self, out: &mut Vec<u64>) {
            for x in &v_raw(*self)[..3] {
                out.push(*x as u64)
            }
        }
    }
    impl Obs for Mat3A {
        fn obs(&self, out: &mut Vec<u64>) {
            for x in visible(&Reg::M(m_raw(*self))) {
                out.push(x as u64)
            }
        }
    }
    impl Obs for Affine3A {
        fn obs(&self, out: &mut Vec<u64>) {
            for x in visible(&Reg::A(a_raw(*self))) {
                out.push(x as u64)
            }
        }
    }
    impl Obs for BVec3A {
        fn obs(&self, out: &mut Vec<u64>) {
            for x in &b_raw(*self)[..3] {
                out.push(*x as u64)
            }
        }
    }

    pub struct Out {
        pub obs: Vec<u64>,
        pub reg: Option<Reg>,
    }
    fn o<T: Obs>(t: T) -> Out {
        let mut v = vec![];
        t.obs(&mut v);
        Out { obs: v, reg: None }
    }
    fn rv(v: Vec3A) -> Out {
        Out { obs: vec![], reg: Some(Reg::V(v_raw(v))) }
    }
    fn rm(v: Mat3A) -> Out {
        Out { obs: vec![], reg: Some(Reg::M(m_raw(v))) }
    }
    fn ra(v: Affine3A) -> Out {
        Out { obs: vec![], reg: Some(Reg::A(a_raw(v))) }
    }
    fn rb(v: BVec3A) -> Out {
        Out { obs: vec![], reg: Some(Reg::B(b_raw(v))) }
    }

    // --------------------------------------------------------------------------- operand menus (twins)
    pub const HID: [u32; 10] = [0, 0x3F80_0000, 0xBF80_0000, 0x4640_E6B7, 0x7F80_0000, 0xFF80_0000, 0x7FC0_0000, 0x7F80_0001, 0xFFFF_FFFF, 0x8000_0000];
    /// vector with the given visible lanes; `w` = 0 builds it with new() (hidden = z), otherwise a
    /// different hidden content injected through from_vec4
    pub fn vh(x: f32, y: f32, z: f32, w: usize) -> Vec3A {
        if w == 0 {
            Vec3A::new(x, y, z)
        } else {
            Vec3A::from_vec4(Vec4::new(x, y, z, f32::from_bits(HID[(w * 3 + 4) % 10])))
        }
    }
    pub struct Menu {
        pub v: [Vec3A; 4],
        pub m: [Mat3A; 2],
        pub a: [Affine3A; 2],
        pub b: [BVec3A; 2],
    }
    pub fn menu(w: usize) -> Menu {
        let v = [vh(1.5, -2.0, 0.25, w), vh(0.0, 3.0, -1.0, w * 2), vh(f32::NAN, f32::INFINITY, 1e-20, w * 3), vh(0.6, 0.0, 0.8, w * 4)];
        let m = [Mat3A::from_cols(vh(2.0, 0.5, -1.0, w), vh(0.25, 3.0, 1.0, w * 2), vh(-1.5, 0.0, 4.0, w * 3)), Mat3A::from_cols(vh(0.0, 1.0, 0.0, w * 2), vh(-1.0, 0.0, 0.0, w), vh(0.0, 0.0, 1.0, w * 5))];
        let a = [
            Affine3A { matrix3: m[0], translation: vh(1.0, 2.0, 3.0, w * 2) },
            Affine3A { matrix3: m[1], translation: vh(-4.0, 0.5, 0.0, w * 3) },
        ];
        let b = [v[0].cmplt(v[1]), v[2].cmpeq(v[2])];
        Menu { v, m, a, b }
    }
    pub fn quats() -> [Quat; 2] {
        [Quat::from_xyzw(0.5, -0.5, 0.5, 0.5), Quat::from_axis_angle(Vec3::new(0.6, 0.0, 0.8), 1.1)]
    }
    pub fn mat4s() -> [Mat4; 2] {
        [
            Mat4::from_scale_rotation_translation(Vec3::new(1.0, 2.0, 0.5), quats()[1], Vec3::new(3.0, -1.0, 2.0)),
            Mat4::perspective_rh(1.0, 1.5, 0.1, 100.0),
        ]
    }
    pub fn string_of<T: std::fmt::Debug + std::fmt::Display>(t: &T) -> (String, String, String) {
        (format!("{:?}", t), format!("{}", t), format!("{:.2}", t))
    }
    pub fn hash64<T: Hash>(t: &T) -> u64 {
        let mut h = std::collections::hash_map::DefaultHasher::new();
        t.hash(&mut h);
        h.finish()
    }

    // --------------------------------------------------------------------------- operation tables
    pub type Op = (&'static str, Box<dyn Fn(&Reg, &Menu) -> Out + Send + Sync>);

    macro_rules! vop {
        ($ops:ident, $name:literal, |$a:ident, $m:ident| $body:expr) => {
            $ops.push(($name, Box::new(|r: &Reg, $m: &Menu| { let $a = match r { Reg::V(x) => v_un(*x), _ => unreachable!() }; let _ = $m; $body })));
        };
    }
    macro_rules! mop {
        ($ops:ident, $name:literal, |$a:ident, $m:ident| $body:expr) => {
            $ops.push(($name, Box::new(|r: &Reg, $m: &Menu| { let $a = match r { Reg::M(x) => m_un(*x), _ => unreachable!() }; let _ = $m; $body })));
        };
    }
    macro_rules! aop {
        ($ops:ident, $name:literal, |$a:ident, $m:ident| $body:expr) => {
            $ops.push(($name, Box::new(|r: &Reg, $m: &Menu| { let $a = match r { Reg::A(x) => a_un(*x), _ => unreachable!() }; let _ = $m; $body })));
        };
    }
    macro_rules! bop {
        ($ops:ident, $name:literal, |$a:ident, $m:ident| $body:expr) => {
            $ops.push(($name, Box::new(|r: &Reg, $m: &Menu| { let $a = match r { Reg::B(x) => b_un(*x), _ => unreachable!() }; let _ = $m; $body })));
        };
    }

    pub fn vec_ops() -> Vec<Op> {
        let mut t: Vec<Op> = vec![];
        // -> Vec3A (unary)
        vop!(t, "neg", |a, m| rv(-a));
        vop!(t, "abs", |a, m| rv(a.abs()));
        vop!(t, "signum", |a, m| rv(a.signum()));
        vop!(t, "floor", |a, m| rv(a.floor()));
        vop!(t, "ceil", |a, m| rv(a.ceil()));
        vop!(t, "round", |a, m| rv(a.round()));
        vop!(t, "trunc", |a, m| rv(a.trunc()));
        vop!(t, "fract", |a, m| rv(a.fract()));
        vop!(t, "fract_gl", |a, m| rv(a.fract_gl()));
        vop!(t, "exp", |a, m| rv(a.exp()));
        vop!(t, "recip", |a, m| rv(a.recip()));
        vop!(t, "powf", |a, m| rv(a.powf(1.5)));
        vop!(t, "normalize", |a, m| rv(a.normalize()));
        vop!(t, "normalize_or_zero", |a, m| rv(a.normalize_or_zero()));
        vop!(t, "normalize_or", |a, m| rv(a.normalize_or(m.v[3])));
        vop!(t, "try_normalize", |a, m| o(a.try_normalize()));
        vop!(t, "normalize_and_length", |a, m| o(a.normalize_and_length()));
        vop!(t, "any_orthogonal_vector", |a, m| rv(a.any_orthogonal_vector()));
        vop!(t, "any_orthonormal_vector", |a, m| rv(a.any_orthonormal_vector()));
        vop!(t, "any_orthonormal_pair", |a, m| o(a.any_orthonormal_pair()));
        vop!(t, "with_x", |a, m| rv(a.with_x(9.0)));
        vop!(t, "with_y", |a, m| rv(a.with_y(9.0)));
        vop!(t, "with_z", |a, m| rv(a.with_z(9.0)));
        vop!(t, "swz zxy", |a, m| rv(a.zxy()));
        vop!(t, "swz zzz", |a, m| rv(a.zzz()));
        vop!(t, "swz yzx", |a, m| rv(a.yzx()));
        vop!(t, "swz xxy", |a, m| rv(a.xxy()));
        vop!(t, "swz with_zx", |a, m| rv(a.with_zx(Vec2::new(7.0, 8.0))));
        vop!(t, "map", |a, m| rv(a.map(|x| x * 2.0 + 1.0)));
        vop!(t, "clamp_length", |a, m| rv(a.clamp_length(0.5, 2.0)));
        vop!(t, "clamp_length_max", |a, m| rv(a.clamp_length_max(1.0)));
        vop!(t, "clamp_length_min", |a, m| rv(a.clamp_length_min(3.0)));
        vop!(t, "dot_into_vec", |a, m| rv(a.dot_into_vec(m.v[0])));
        // -> Vec3A (with twin operands)
        vop!(t, "add", |a, m| rv(a + m.v[0]));
        vop!(t, "sub", |a, m| rv(m.v[1] - a));
        vop!(t, "mul", |a, m| rv(a * m.v[0]));
        vop!(t, "div", |a, m| rv(a / m.v[1]));
        vop!(t, "rem", |a, m| rv(a % m.v[0]));
        vop!(t, "add_scalar", |a, m| rv(a + 2.5));
        vop!(t, "scalar_div", |a, m| rv(2.5 / a));
        vop!(t, "mul_assign", |a, m| { let mut c = a; c *= m.v[0]; rv(c) });
        vop!(t, "min", |a, m| rv(a.min(m.v[0])));
        vop!(t, "max", |a, m| rv(a.max(m.v[1])));
        vop!(t, "clamp", |a, m| rv(a.clamp(m.v[1].min(m.v[0]), m.v[1].max(m.v[0]))));
        vop!(t, "cross", |a, m| rv(a.cross(m.v[0])));
        vop!(t, "cross_rev", |a, m| rv(m.v[3].cross(a)));
        vop!(t, "copysign", |a, m| rv(a.copysign(m.v[1])));
        vop!(t, "mul_add", |a, m| rv(a.mul_add(m.v[0], m.v[1])));
        vop!(t, "lerp", |a, m| rv(a.lerp(m.v[0], 0.3)));
        // towards a copy with the same visible lanes but its own hidden lane (and towards itself)
        vop!(t, "lerp(rebuilt copy)", |a, m| o((a.lerp(Vec3A::from_array(a.to_array()), 0.3).to_array().map(|x| x.to_bits()), a.lerp(a, 0.3).to_array().map(|x| x.to_bits()), Vec3A::from_array(a.to_array()).lerp(a, 0.7).to_array().map(|x| x.to_bits()), a.slerp(Vec3A::from_array(a.to_array()), 0.3).to_array().map(|x| x.to_bits()))));
        // bounds whose hidden lanes come from the state: ordered in the visible lanes, arbitrary in the fourth
        vop!(t, "clamp(bounds from the state)", |a, m| o(catch(|| m.v[0].clamp(a.min(m.v[1]), a.max(m.v[1])).to_array().map(|x| x.to_bits())).ok()));
        vop!(t, "slerp", |a, m| rv(a.slerp(m.v[0], 0.3)));
        vop!(t, "midpoint", |a, m| rv(a.midpoint(m.v[0])));
        vop!(t, "move_towards", |a, m| rv(a.move_towards(m.v[0], 0.5)));
        vop!(t, "rotate_towards", |a, m| rv(a.rotate_towards(m.v[0], 0.5)));
        vop!(t, "project_onto", |a, m| rv(a.project_onto(m.v[0])));
        vop!(t, "reject_from", |a, m| rv(a.reject_from(m.v[0])));
        vop!(t, "project_onto_normalized", |a, m| rv(a.project_onto_normalized(m.v[3])));
        vop!(t, "reject_from_normalized", |a, m| rv(a.reject_from_normalized(m.v[3])));
        vop!(t, "reflect", |a, m| rv(a.reflect(m.v[3])));
        vop!(t, "refract", |a, m| rv(a.refract(m.v[3], 0.7)));
        vop!(t, "div_euclid", |a, m| rv(a.div_euclid(m.v[0])));
        vop!(t, "rem_euclid", |a, m| rv(a.rem_euclid(m.v[0])));
        vop!(t, "select", |a, m| rv(Vec3A::select(m.b[0], a, m.v[0])));
        vop!(t, "sum", |a, m| rv([a, m.v[0], m.v[1]].iter().sum()));
        vop!(t, "product", |a, m| rv([a, m.v[0]].iter().copied().product()));
        vop!(t, "quat*v", |a, m| rv(quats()[0] * a));
        vop!(t, "quat.mul_vec3a", |a, m| rv(quats()[1].mul_vec3a(a)));
        vop!(t, "mat3*v", |a, m| rv(Mat3::from(m.m[0]) * a));
        vop!(t, "mat3a*v", |a, m| rv(m.m[0] * a));
        vop!(t, "mat3a.mul_vec3a", |a, m| rv(m.m[1].mul_vec3a(a)));
        vop!(t, "mat4.transform_point3a", |a, m| rv(mat4s()[0].transform_point3a(a)));
        vop!(t, "mat4.transform_vector3a", |a, m| rv(mat4s()[0].transform_vector3a(a)));
        vop!(t, "mat4.project_point3a", |a, m| rv(mat4s()[1].project_point3a(a)));
        vop!(t, "affine.transform_point3a", |a, m| rv(m.a[0].transform_point3a(a)));
        vop!(t, "affine.transform_vector3a", |a, m| rv(m.a[1].transform_vector3a(a)));
        // -> BVec3A
        vop!(t, "cmpeq", |a, m| rb(a.cmpeq(m.v[0])));
        vop!(t, "cmpne", |a, m| rb(a.cmpne(m.v[2])));
        vop!(t, "cmplt", |a, m| rb(a.cmplt(m.v[0])));
        vop!(t, "cmple", |a, m| rb(a.cmple(m.v[1])));
        vop!(t, "cmpgt", |a, m| rb(a.cmpgt(m.v[0])));
        vop!(t, "cmpge", |a, m| rb(a.cmpge(m.v[1])));
        vop!(t, "is_nan_mask", |a, m| rb(a.is_nan_mask()));
        vop!(t, "is_finite_mask", |a, m| rb(a.is_finite_mask()));
        // -> Mat3A / Affine3A
        vop!(t, "Mat3A::from_cols", |a, m| rm(Mat3A::from_cols(a, m.v[0], m.v[1])));
        vop!(t, "Mat3A::from_cols(rot)", |a, m| rm(Mat3A::from_cols(m.v[3], a, m.v[0])));
        vop!(t, "Affine3A::from_cols", |a, m| ra(Affine3A::from_cols(m.v[0], a, m.v[3], a)));
        vop!(t, "Affine3A{translation}", |a, m| ra(Affine3A { matrix3: m.m[1], translation: a }));
        // observations
        vop!(t, "dot", |a, m| o(a.dot(m.v[0])));
        vop!(t, "dot_self", |a, m| o(a.dot(a)));
        vop!(t, "length", |a, m| o((a.length(), a.length_squared(), a.length_recip())));
        vop!(t, "distance", |a, m| o((a.distance(m.v[0]), a.distance_squared(m.v[1]))));
        vop!(t, "min_max_element", |a, m| o((a.min_element(), a.max_element())));
        vop!(t, "min_max_position", |a, m| o((a.min_position(), a.max_position())));
        vop!(t, "element_sum_product", |a, m| o((a.element_sum(), a.element_product())));
        vop!(t, "is_*", |a, m| o((a.is_nan(), a.is_finite(), a.is_normalized())));
        vop!(t, "is_negative_bitmask", |a, m| o(a.is_negative_bitmask()));
        vop!(t, "eq", |a, m| o((a == m.v[0], a != m.v[0], a == a, a == v_un([v_raw(a)[0], v_raw(a)[1], v_raw(a)[2], 0x12345678]))));
        vop!(t, "abs_diff_eq", |a, m| o((a.abs_diff_eq(m.v[0], 10.0), a.abs_diff_eq(a, 0.0))));
        vop!(t, "angle_between", |a, m| o(a.angle_between(m.v[0])));
        vop!(t, "to_array", |a, m| o(a.to_array()));
        vop!(t, "into", |a, m| o((Vec3::from(a), <[f32; 3]>::from(a), <(f32, f32, f32)>::from(a))));
        vop!(t, "as_ref", |a, m| o(*<Vec3A as AsRef<[f32; 3]>>::as_ref(&a)));
        vop!(t, "index", |a, m| o([a[0], a[1], a[2], a.x, a.y, a.z]));
        vop!(t, "index 3", |a, m| o((catch(|| a[3].to_bits()).ok(), catch(|| { let mut c = a; c[3] = 1.0; c.to_array().map(|x| x.to_bits()) }).ok())));
        vop!(t, "extend", |a, m| o(a.extend(5.0)));
        vop!(t, "truncate", |a, m| o(a.truncate()));
        vop!(t, "swz2", |a, m| o((a.xy(), a.zz(), a.yx())));
        vop!(t, "swz4", |a, m| o((a.xyzx(), a.zzzz(), a.zyxz())));
        vop!(t, "From<(Vec3A,f32)> for Vec4", |a, m| o((Vec4::from((a, 1.0)), Vec4::from((2.0, a)))));
        vop!(t, "strings", |a, m| o(string_of(&a)));
        vop!(t, "write_to_slice", |a, m| { let mut b = [7.0f32; 5]; a.write_to_slice(&mut b); o(b) });
        vop!(t, "casts", |a, m| o((a.as_dvec3(), a.as_ivec3(), a.as_uvec3())));
        vop!(t, "casts2", |a, m| o((a.as_i8vec3(), a.as_u16vec3(), a.as_i64vec3())));
        vop!(t, "Mat3::from_cols", |a, m| o(Mat3::from(Mat3A::from_cols(a, a, m.v[0]))));
        vop!(t, "quat from_rotation_arc", |a, m| o(Quat::from_rotation_arc(a.normalize_or(Vec3A::X).into(), Vec3::Y)));
        t
    }

    pub fn mat_ops() -> Vec<Op> {
        let mut t: Vec<Op> = vec![];
        mop!(t, "transpose", |a, m| rm(a.transpose()));
        mop!(t, "inverse", |a, m| rm(a.inverse()));
        mop!(t, "neg", |a, m| rm(-a));
        mop!(t, "abs", |a, m| rm(a.abs()));
        mop!(t, "mul_mat3", |a, m| rm(a * m.m[0]));
        mop!(t, "mul_mat3_rev", |a, m| rm(m.m[1].mul_mat3(&a)));
        mop!(t, "add", |a, m| rm(a + m.m[0]));
        mop!(t, "sub_mat3", |a, m| rm(a.sub_mat3(&m.m[0])));
        mop!(t, "mul_scalar", |a, m| rm(a * 2.0));
        mop!(t, "scalar_mul", |a, m| rm(0.5 * a));
        mop!(t, "div_scalar", |a, m| rm(a / 4.0));
        mop!(t, "mul_assign", |a, m| { let mut c = a; c *= m.m[1]; rm(c) });
        mop!(t, "sum", |a, m| rm([a, m.m[0]].iter().sum()));
        mop!(t, "product", |a, m| rm([a, m.m[1]].iter().product()));
        mop!(t, "col", |a, m| rv(a.col(1)));
        mop!(t, "row", |a, m| rv(a.row(2)));
        // index-taking accessors at every index
        mop!(t, "col,row(all)", |a, m| o([0usize, 1, 2].map(|i| (a.col(i).to_array(), a.row(i).to_array()))));
        mop!(t, "z_axis", |a, m| rv(a.z_axis));
        mop!(t, "mul_vec3a", |a, m| rv(a * m.v[0]));
        mop!(t, "col_mut", |a, m| { let mut c = a; *c.col_mut(0) = m.v[0]; rm(c) });
        mop!(t, "col_mut(1)", |a, m| { let mut c = a; *c.col_mut(1) = m.v[0]; rm(c) });
        mop!(t, "col_mut(2)", |a, m| { let mut c = a; c.col_mut(2).y = m.v[0].x; rm(c) });
        mop!(t, "Affine3A{matrix3}", |a, m| ra(Affine3A { matrix3: a, translation: m.v[0] }));
        mop!(t, "determinant", |a, m| o(a.determinant()));
        mop!(t, "mul_vec3", |a, m| o(a * Vec3::new(1.0, -2.0, 0.5)));
        mop!(t, "to_cols_array", |a, m| o((a.to_cols_array(), a.to_cols_array_2d())));
        mop!(t, "write_cols_to_slice", |a, m| { let mut b = [7.0f32; 11]; a.write_cols_to_slice(&mut b); o(b) });
        mop!(t, "Mat3::from", |a, m| o(Mat3::from(a)));
        mop!(t, "Mat4::from_mat3a", |a, m| o(Mat4::from_mat3a(a)));
        mop!(t, "Mat2::from_mat3a", |a, m| o((Mat2::from_mat3a(a), Mat2::from_mat3a_minor(a, 1, 2), Mat2::from_mat3a_minor(a, 2, 0))));
        // every (column, row) pair of the minor constructor
        mop!(t, "Mat2::from_mat3a_minor(all 9)", |a, m| o([0usize, 1, 2].map(|i| [0usize, 1, 2].map(|j| Mat2::from_mat3a_minor(a, i, j).to_cols_array()))));
        mop!(t, "Affine2::from_mat3a", |a, m| o(Affine2::from_mat3a(a)));
        mop!(t, "eq", |a, m| o((a == m.m[0], a == a, a != m.m[1])));
        // against a copy rebuilt from the visible elements (its padding lanes are whatever the
        // constructor leaves there): a shortcut that compares whole registers would show here
        mop!(t, "eq(rebuilt copy)", |a, m| { let c = Mat3A::from_cols_array(&a.to_cols_array()); o((a == c, c == a, a != c, a.abs_diff_eq(c, 0.0))) });
        mop!(t, "abs_diff_eq", |a, m| o((a.abs_diff_eq(m.m[0], 100.0), a.abs_diff_eq(a, 0.0))));
        mop!(t, "is_*", |a, m| o((a.is_finite(), a.is_nan())));
        mop!(t, "strings", |a, m| o(string_of(&a)));
        mop!(t, "as_dmat3", |a, m| o(a.as_dmat3()));
        mop!(t, "Quat::from_mat3a", |a, m| o(Quat::from_mat3a(&a)));
        mop!(t, "to_euler", |a, m| o(a.to_euler(EulerRot::YXZ)));
        mop!(t, "transform_point2", |a, m| o((a.transform_point2(Vec2::new(1.0, 2.0)), a.transform_vector2(Vec2::new(1.0, 2.0)))));
        t
    }

    pub fn aff_ops() -> Vec<Op> {
        let mut t: Vec<Op> = vec![];
        aop!(t, "inverse", |a, m| ra(a.inverse()));
        aop!(t, "mul", |a, m| ra(a * m.a[0]));
        aop!(t, "mul_rev", |a, m| ra(m.a[1] * a));
        aop!(t, "mul_assign", |a, m| { let mut c = a; c *= m.a[1]; ra(c) });
        aop!(t, "product", |a, m| ra([a, m.a[0]].iter().product()));
        aop!(t, "matrix3", |a, m| rm(a.matrix3));
        aop!(t, "translation", |a, m| rv(a.translation));
        aop!(t, "transform_point3a", |a, m| rv(a.transform_point3a(m.v[0])));
        aop!(t, "transform_vector3a", |a, m| rv(a.transform_vector3a(m.v[0])));
        aop!(t, "transform_point3", |a, m| o((a.transform_point3(Vec3::new(1.0, -2.0, 0.5)), a.transform_vector3(Vec3::new(1.0, -2.0, 0.5)))));
        aop!(t, "Mat4::from", |a, m| o(Mat4::from(a)));
        aop!(t, "mul_mat4", |a, m| o((a * mat4s()[0], mat4s()[1] * a)));
        aop!(t, "to_cols_array", |a, m| o((a.to_cols_array(), a.to_cols_array_2d())));
        aop!(t, "write_cols_to_slice", |a, m| { let mut b = [7.0f32; 14]; a.write_cols_to_slice(&mut b); o(b) });
        aop!(t, "to_scale_rotation_translation", |a, m| o(a.to_scale_rotation_translation()));
        aop!(t, "eq", |a, m| o((a == m.a[0], a == a, a != m.a[1])));
        aop!(t, "eq(rebuilt copy)", |a, m| { let c = Affine3A::from_cols_array(&a.to_cols_array()); o((a == c, c == a, a != c)) });
        aop!(t, "abs_diff_eq", |a, m| o((a.abs_diff_eq(m.a[0], 100.0), a.abs_diff_eq(a, 0.0))));
        aop!(t, "is_*", |a, m| o((a.is_finite(), a.is_nan())));
        aop!(t, "strings", |a, m| o(string_of(&a)));
        aop!(t, "as_daffine3", |a, m| o(a.as_daffine3()));
        aop!(t, "Quat::from_affine3", |a, m| o(Quat::from_affine3(&a)));
        t
    }

    pub fn mask_ops() -> Vec<Op> {
        let mut t: Vec<Op> = vec![];
        bop!(t, "and", |a, m| rb(a & m.b[0]));
        bop!(t, "or", |a, m| rb(a | m.b[1]));
        bop!(t, "xor", |a, m| rb(a ^ m.b[0]));
        bop!(t, "not", |a, m| rb(!a));
        bop!(t, "set", |a, m| { let mut c = a; c.set(1, true); rb(c) });
        bop!(t, "set(0,false)", |a, m| { let mut c = a; c.set(0, false); rb(c) });
        bop!(t, "set(2,true)", |a, m| { let mut c = a; c.set(2, true); rb(c) });
        bop!(t, "xor_assign", |a, m| { let mut c = a; c ^= m.b[1]; rb(c) });
        bop!(t, "select", |a, m| rv(Vec3A::select(a, m.v[0], m.v[1])));
        bop!(t, "any_all_bitmask", |a, m| o((a.any(), a.all(), a.bitmask())));
        bop!(t, "test", |a, m| o([a.test(0), a.test(1), a.test(2)]));
        // the index of the hidden lane is out of range: whatever happens (a panic is documented), it must
        // not depend on what the hidden lane holds
        bop!(t, "test(3), set(3)", |a, m| o((catch(|| a.test(3)).ok(), catch(|| { let mut c = a; c.set(3, true); c.bitmask() }).ok(), catch(|| { let mut c = a; c.set(3, false); c.bitmask() }).ok())));
        bop!(t, "eq_hash", |a, m| o((a == m.b[0], a == a, a != m.b[1], hash64(&a))));
        bop!(t, "into", |a, m| o((<[bool; 3]>::from(a), <[u32; 3]>::from(a))));
        bop!(t, "strings", |a, m| o((format!("{:?}", a), format!("{}", a))));
        bop!(t, "From<BVec3A> for vectors", |a, m| o((Vec3::from(a), IVec3::from(a), U8Vec3::from(a))));
        bop!(t, "Vec3A::from", |a, m| rv(Vec3A::from(a)));
        t
    }

    // ---------------------------------------------------------------------------------- the model
    #[derive(Clone, Debug, PartialEq, Eq, Hash)]
    pub struct TState {
        pub a: Reg,
        pub b: Reg,
        pub depth: u8,
        /// first divergence found by the transition that produced this state (0 = none); the
        /// always-property is `bad == 0`
        pub bad: u32,
        pub via: u16,
    }
    pub struct Twin {
        pub vec: Vec<Op>,
        pub mat: Vec<Op>,
        pub aff: Vec<Op>,
        pub mask: Vec<Op>,
        pub m0: Menu,
        pub m1: Menu,
        pub max_depth: u8,
        pub visible_values: Vec<f32>,
    }
    impl Twin {
        pub fn ops(&self, r: &Reg) -> &Vec<Op> {
            match r {
                Reg::V(_) => &self.vec,
                Reg::M(_) => &self.mat,
                Reg::A(_) => &self.aff,
                Reg::B(_) => &self.mask,
            }
        }
        /// apply op `k` to both twins; returns (divergence code, next twin registers)
        pub fn step(&self, s: &TState, k: usize) -> (u32, Option<(Reg, Reg)>, String) {
            let (name, f) = &self.ops(&s.a)[k];
            let ra = catch(|| f(&s.a, &self.m0));
            let rb = catch(|| f(&s.b, &self.m1));
            match (ra, rb) {
                (Err(_), Err(_)) => (0, None, String::new()),
                (Ok(x), Ok(y)) => {
                    if x.obs != y.obs {
                        return (1, None, format!("op `{name}`: observation differs between twins: {:x?} vs {:x?}", x.obs, y.obs));
                    }
                    match (x.reg, y.reg) {
                        (Some(p), Some(q)) => {
                            if visible(&p) != visible(&q) {
                                (2, None, format!("op `{name}`: visible lanes of the result differ: {:x?} vs {:x?}", visible(&p), visible(&q)))
                            } else {
                                (0, Some((p, q)), String::new())
                            }
                        }
                        (None, None) => (0, None, String::new()),
                        _ => (3, None, format!("op `{name}`: result kinds differ")),
                    }
                }
                (x, y) => (4, None, format!("op `{name}`: one twin panicked, the other did not ({:?} / {:?})", x.is_err(), y.is_err())),
            }
        }
    }
    impl Model for Twin {
        type State = TState;
        type Action = u16;
        fn init_states(&self) -> Vec<TState> {
            let mut v = vec![];
            let vals = &self.visible_values;
            for x in vals {
                for y in vals {
                    for z in vals {
                        let a = Vec3A::new(*x, *y, *z);
                        for h in HID {
                            // route 1: from_vec4; route 2: raw register (= From<__m128>/From<f32x4>)
                            let b1 = Vec3A::from_vec4(Vec4::new(*x, *y, *z, f32::from_bits(h)));
                            let b2 = v_un([x.to_bits(), y.to_bits(), z.to_bits(), h]);
                            for b in [b1, b2] {
                                v.push(TState { a: Reg::V(v_raw(a)), b: Reg::V(v_raw(b)), depth: 0, bad: 0, via: u16::MAX });
                            }
                        }
                    }
                }
            }
            let mut seen = std::collections::HashSet::new();
            v.retain(|s| seen.insert(s.clone()));
            v
        }
        fn actions(&self, s: &TState, acts: &mut Vec<u16>) {
            if s.bad != 0 || s.depth >= self.max_depth {
                return;
            }
            for k in 0..self.ops(&s.a).len() {
                acts.push(k as u16);
            }
        }
        fn next_state(&self, s: &TState, k: u16) -> Option<TState> {
            let (bad, next, _) = self.step(s, k as usize);
            if bad != 0 {
                return Some(TState { a: s.a, b: s.b, depth: s.depth + 1, bad, via: k });
            }
            // observation-only ops produce no new register: no new state
            next.map(|(a, b)| TState { a, b, depth: s.depth + 1, bad: 0, via: u16::MAX })
        }
        fn properties(&self) -> Vec<Property<Self>> {
            vec![Property::always("twins are indistinguishable", |_: &Twin, s: &TState| s.bad == 0)]
        }
    }

    pub fn run() {
        let mut rep = Report::new("C08", "model_checking");
        silence_panics();
        rep.rule("twin-register model: init = visible lanes from the value alphabet^3 x 10 hidden-lane contents x 2 injection routes (from_vec4, raw register); actions = every listed public operation of Vec3A / Mat3A / Affine3A / BVec3A (and functions of other types taking them) applied to both twins with twin operand menus; invariant: all non-register observations bit-identical, visible lanes of register results bit-identical; register results are explored further up to the depth bound");
        let thorough = rep.thorough();
        let runs: Vec<(Vec<f32>, u8)> = if thorough {
            vec![(vec![0.0, 1.0, -2.5, 1e-20, f32::INFINITY, f32::NAN], 3), (vec![-2.5, f32::INFINITY, f32::NAN], 4)]
        } else {
            vec![(vec![0.0, -2.5, f32::INFINITY, f32::NAN], 3)]
        };
        for (visible_values, max_depth) in runs {
            let nv = visible_values.len();
            let model = Twin { vec: vec_ops(), mat: mat_ops(), aff: aff_ops(), mask: mask_ops(), m0: menu(0), m1: menu(1), max_depth, visible_values };
            rep.extra.insert("ops".into(), json!({"Vec3A": model.vec.len(), "Mat3A": model.mat.len(), "Affine3A": model.aff.len(), "BVec3A": model.mask.len()}));
            rep.extra.insert("op_names".into(), json!({"Vec3A": model.vec.iter().map(|o| o.0).collect::<Vec<_>>(), "Mat3A": model.mat.iter().map(|o| o.0).collect::<Vec<_>>(), "Affine3A": model.aff.iter().map(|o| o.0).collect::<Vec<_>>(), "BVec3A": model.mask.iter().map(|o| o.0).collect::<Vec<_>>()}));
            let name = format!("twin-register model ({nv} visible values, depth {max_depth})");
            run_bfs(&mut rep, &name, "hidden-lane", model, false, |m, s| {
                // s is the marker state produced by the diverging transition; re-run it for the message
                let prev = TState { a: s.a, b: s.b, depth: s.depth - 1, bad: 0, via: u16::MAX };
                let (_, _, msg) = m.step(&prev, s.via as usize);
                let opname = m.ops(&s.a)[s.via as usize].0;
                let kind = match s.a { Reg::V(_) => "Vec3A", Reg::M(_) => "Mat3A", Reg::A(_) => "Affine3A", Reg::B(_) => "BVec3A" };
                (format!("{kind}::{opname}"), format!("twins a={:x?} b={:x?}: {msg}", s.a, s.b))
            });
        }
        rep.sample(json!({"init": "a = Vec3A::new(-2.5, inf, NaN); a' = from_vec4((-2.5, inf, NaN, 0xFFFFFFFF))", "trace": ["cross(m0)", "Mat3A::from_cols(., m0, m1)", "inverse"], "oracle": "observations and visible result lanes bit-identical on both twins"}));
        std::process::exit(rep.finish());
    }
}

#[cfg(not(feature = "scalar"))]
fn main() {
    imp::run();
}
