//! C14 — conversions between vector types match the primitive conversions lane by lane.
//! The list of conversions is generated from the tree under test (gen/apigen.py).
#![allow(clippy::all)]
use glam::*;
use harness::flat::*;
use harness::lat::phi;
use harness::rep::*;
use serde_json::json;

fn same<S: Sc>(a: S, b: S) -> bool {
    if S::IS_FLOAT {
        a.bits() == b.bits() || (a != a && b != b)
    } else {
        a.bits() == b.bits()
    }
}

/// `as_*` casts: every lattice value of the source scalar through every lane (rotated)
fn cast<X: Flat, Y: Flat>(rep: &mut Report, name: &str, f: impl Fn(X) -> Y + Sync, prim: impl Fn(X::S) -> Y::S + Sync) {
    assert_eq!(X::N, Y::N);
    let lat = <X::S as Sc>::lattice_cast(rep.thorough());
    let l = lat.len();
    let check = |x: &[X::S], acc: &mut Acc| {
        let mut y = [<Y::S as Sc>::zero(); 4];
        f(X::build(x)).put(&mut y);
        let mut w = [<Y::S as Sc>::zero(); 4];
        let mut ok = true;
        for i in 0..X::N {
            w[i] = prim(x[i]);
            ok &= same(y[i], w[i]);
        }
        acc.eval(x.iter().any(|s| *s != <X::S as Sc>::zero()), y[0].bits() ^ y[X::N - 1].bits().rotate_left(32));
        if !ok {
            acc.fail(name, format!("in={} got={} want={}", show(x), show(&y[..X::N]), show(&w[..X::N])));
        }
    };
    rep.sweep(&format!("{name}/lattice({l}) rotated through lanes"), l as u64, |idx, acc| {
        let x: Vec<X::S> = (0..X::N).map(|i| lat[(idx as usize + i * 7919) % l]).collect();
        check(&x, acc);
    });
    // f32 sources: every bit pattern through every lane (thorough tier)
    // (quick tier: Vec3A into the 8- and 32-bit integer targets)
    let quick_sweep = std::any::type_name::<X>().ends_with("Vec3A") && matches!(<Y::S as Sc>::NAME, "i8" | "u8" | "i32" | "u32");
    if (rep.thorough() || quick_sweep) && <X::S as Sc>::NAME == "f32" {
        rep.sweep(&format!("{name}/F32_ALL"), 1u64 << 32, |idx, acc| {
            let mut x = [<X::S as Sc>::zero(); 4];
            for i in 0..X::N {
                x[i] = from_f32::<X::S>(f32::from_bits(phi(i, idx as u32)));
            }
            check(&x[..X::N], acc);
        });
    }
}

fn from_f32<S: Sc>(v: f32) -> S {
    // only instantiated for S = f32
    assert_eq!(std::mem::size_of::<S>(), 4);
    unsafe { std::mem::transmute_copy::<f32, S>(&v) }
}

/// lossless numeric From between vector types
fn from_num<X: Flat, Y: Flat + From<X>>(rep: &mut Report, name: &str)
where
    Y::S: From<X::S>,
{
    assert_eq!(X::N, Y::N);
    let lat = <X::S as Sc>::lattice_cast(rep.thorough());
    let l = lat.len();
    rep.sweep(&format!("{name}/lattice({l}) rotated through lanes"), l as u64, |idx, acc| {
        let x: Vec<X::S> = (0..X::N).map(|i| lat[(idx as usize + i * 7919) % l]).collect();
        let y = Y::from(X::build(&x)).lanes();
        let w: Vec<Y::S> = x.iter().map(|s| <Y::S as From<X::S>>::from(*s)).collect();
        acc.eval(x.iter().any(|s| *s != <X::S as Sc>::zero()), y[0].bits() ^ y[X::N - 1].bits().rotate_left(32));
        if !(0..X::N).all(|i| same(y[i], w[i])) {
            acc.fail(name, format!("in={} got={} want={}", show(&x), show(&y), show(&w)));
        }
    });
}

/// TryFrom: Ok with exact values iff every lane fits; lane isolation so that a failing value
/// sits alone in every lane position
fn try_num<X: Flat, Y: Flat + TryFrom<X>>(rep: &mut Report, name: &str)
where
    Y::S: TryFrom<X::S>,
{
    assert_eq!(X::N, Y::N);
    let lat = <X::S as Sc>::lattice_cast(rep.thorough());
    let l = lat.len();
    let n = X::N;
    rep.sweep(&format!("{name}/lattice({l}) x lane-isolation"), (l * (n + 1)) as u64, |idx, acc| {
        let k = idx as usize % l;
        let lane = idx as usize / l;
        let x: Vec<X::S> = (0..n)
            .map(|i| if lane == n { lat[(k + i * 7919) % l] } else if lane == i { lat[k] } else { <X::S as Sc>::fin(i % 4) })
            .collect();
        let got = Y::try_from(X::build(&x)).ok().map(|y| y.lanes());
        let mut want: Option<Vec<Y::S>> = Some(vec![]);
        for s in &x {
            match <Y::S as TryFrom<X::S>>::try_from(*s) {
                Ok(v) => {
                    if let Some(w) = &mut want {
                        w.push(v)
                    }
                }
                Err(_) => want = None,
            }
        }
        let ok = match (&got, &want) {
            (Some(g), Some(w)) => (0..n).all(|i| same(g[i], w[i])),
            (None, None) => true,
            _ => false,
        };
        acc.eval(true, got.as_ref().map(|g| g[0].bits() ^ g[n - 1].bits().rotate_left(32)).unwrap_or(0xdead));
        if !ok {
            acc.fail(name, format!("in={} got={:?} want={:?}", show(&x), got, want));
        }
    });
}

/// From<mask>: true is 1, false is 0
fn from_mask<M: Mask + Sync, Y: Flat + From<M>>(rep: &mut Report, name: &str) {
    assert_eq!(M::N, Y::N);
    rep.sweep(&format!("{name}/all masks"), 1 << M::N, |idx, acc| {
        let b: Vec<bool> = (0..M::N).map(|i| idx >> i & 1 == 1).collect();
        let y = Y::from(M::build(&b)).lanes();
        let w: Vec<Y::S> = b.iter().map(|t| if *t { <Y::S as Sc>::one() } else { <Y::S as Sc>::zero() }).collect();
        acc.eval(idx != 0, idx);
        if !bits_eq(&y, &w) {
            acc.fail(name, format!("mask={:?} got={} want={}", b, show(&y), show(&w)));
        }
    });
}

fn tagged<S: Sc>(n: usize, round: usize) -> Vec<S> {
    let v: Vec<S> = match round {
        0..=5 => (0..n).map(|i| S::tag(i + round * 5)).collect(),
        6 => (0..n).map(|i| S::fin(i)).collect(),
        7 => (0..n).map(|_| S::tag(1)).collect(),
        _ => (0..n).map(|i| S::fin(n - i)).collect(),
    };
    if round != 7 {
        for i in 0..n {
            for j in 0..i {
                assert!(v[i].bits() != v[j].bits(), "tags must be pairwise distinct");
            }
        }
    }
    v
}
const ROUNDS: u64 = 9;

/// pure data movement: output lanes are the input lanes in order, bit for bit
fn mv<X: Flat, Y: Flat<S = X::S> + From<X>>(rep: &mut Report, name: &str) {
    assert_eq!(X::N, Y::N, "{name}");
    rep.sweep(&format!("{name}/tagged lanes"), ROUNDS, |idx, acc| {
        let x = tagged::<X::S>(X::N, idx as usize);
        let y = Y::from(X::build(&x)).lanes();
        acc.eval(true, idx);
        if !bits_eq(&x, &y) {
            acc.fail(name, format!("in={} got={}", show(&x), show(&y)));
        }
    });
}

fn extend<X: Flat, Y: Flat<S = X::S>>(rep: &mut Report, name: &str, f: impl Fn(X, X::S) -> Y + Sync) {
    assert_eq!(X::N + 1, Y::N);
    rep.sweep(&format!("{name}/tagged lanes"), ROUNDS, |idx, acc| {
        let x = tagged::<X::S>(Y::N, idx as usize);
        let y = f(X::build(&x[..X::N]), x[X::N]).lanes();
        acc.eval(true, idx);
        if !bits_eq(&x, &y) {
            acc.fail(name, format!("in={} got={}", show(&x), show(&y)));
        }
    });
}
fn truncate<X: Flat, Y: Flat<S = X::S>>(rep: &mut Report, name: &str, f: impl Fn(X) -> Y + Sync) {
    assert_eq!(X::N, Y::N + 1);
    rep.sweep(&format!("{name}/tagged lanes"), ROUNDS, |idx, acc| {
        let x = tagged::<X::S>(X::N, idx as usize);
        let y = f(X::build(&x)).lanes();
        acc.eval(true, idx);
        if !bits_eq(&x[..Y::N], &y) {
            acc.fail(name, format!("in={} got={}", show(&x), show(&y)));
        }
    });
}

include!("../generated/c14_table.rs");

fn main() {
    let mut rep = Report::new("C14", "exploration");
    silence_panics();
    rep.rule("cases = (conversion impl listed by the inventory of the tree, source lane tuple); as_*/From/TryFrom: every value of the source scalar's lattice (all values for 8/16-bit sources; boundary lattice incl. 2^k±ulp neighbourhoods, type MIN/MAX±1, ±inf, NaN for wider sources; all 2^32 f32 patterns in the thorough tier) rotated through / isolated in every lane; pure moves: 9 rounds of pairwise distinct tagged lanes (NaN payloads, -0, subnormals, extremes); non-trivial = some source lane non-zero");
    run_generated(&mut rep);
    // hand-listed moves that are methods rather than From impls
    mv_method(&mut rep);
    rep.extra.insert("generated_counts".into(), serde_json::from_str(GENERATED_COUNTS).unwrap());
    rep.extra.insert("uncovered_api".into(), json!(UNCOVERED));
    rep.sample(json!({"conversion": "Vec3A::as_u8vec3", "in": [255.5, -0.9, "NaN"], "want": [255, 0, 0]}));
    rep.sample(json!({"conversion": "TryFrom<I64Vec3> for IVec3", "in": [1, 2147483648i64, 3], "want": "Err"}));
    rep.sample(json!({"conversion": "From<(Vec2, f32)> for Vec3", "in": "tagged NaN payloads", "want": "bit-identical lanes in order"}));
    std::process::exit(rep.finish());
}

fn mv_method(rep: &mut Report) {
    // from_vec4 / xyz-style truncations and Quat <-> Vec4
    macro_rules! m {
        ($name:literal, $X:ty, $Y:ty, $f:expr, $take:expr) => {{
            rep.sweep(concat!($name, "/tagged lanes"), ROUNDS, |idx, acc| {
                let x = tagged::<<$X as Flat>::S>(<$X as Flat>::N, idx as usize);
                let f: fn($X) -> $Y = $f;
                let y = f(<$X as Flat>::build(&x)).lanes();
                acc.eval(true, idx);
                if !bits_eq(&x[..$take], &y) {
                    acc.fail($name, format!("in={} got={}", show(&x), show(&y)));
                }
            });
        }};
    }
    m!("Vec3A::from_vec4", Vec4, Vec3A, |v| Vec3A::from_vec4(v), 3);
    m!("Quat::from_vec4", Vec4, Quat, |v| Quat::from_vec4(v), 4);
    m!("DQuat::from_vec4", DVec4, DQuat, |v| DQuat::from_vec4(v), 4);
    m!("Quat::xyz", Quat, Vec3, |q| q.xyz(), 3);
    m!("DQuat::xyz", DQuat, DVec3, |q| q.xyz(), 3);
    m!("Quat::from_array", [f32; 4], Quat, |a| Quat::from_array(a), 4);
    m!("Quat::to_array", Quat, [f32; 4], |q| q.to_array(), 4);
    m!("Quat::from_xyzw", [f32; 4], Quat, |a| Quat::from_xyzw(a[0], a[1], a[2], a[3]), 4);
}
