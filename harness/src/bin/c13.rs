//! C13 — integer vectors are the exact lane-wise lift of Rust integer semantics (engine E1).
//! The oracle is the Rust primitive evaluated per lane *in the same build profile* under
//! catch_unwind, so "panics exactly when the primitive would panic" is decided by execution.
#![allow(clippy::all)]
#![allow(unused_macros, unused_variables, unused_mut)]
use harness::lat::*;
use harness::rep::*;
use harness::catch;
use serde_json::json;
use std::fmt::Debug;
use std::ops::*;

fn overflow_checks_on() -> bool {
    catch(|| {
        let x: u8 = std::hint::black_box(255u8);
        x + std::hint::black_box(1u8)
    })
    .is_err()
}

#[inline]
fn cmp_res<R: PartialEq + Debug>(acc: &mut Acc, tn: &str, site: &str, got: Result<R, String>, want: Result<R, ()>, nontriv: bool, ctx: &dyn Fn() -> String) {
    let ok = match (&got, &want) {
        (Ok(g), Ok(w)) => g == w,
        (Err(_), Err(_)) => true,
        _ => false,
    };
    let h = match &got {
        Ok(g) => {
            // cheap hash of the debug-free representation: use the address-independent bytes
            let p = g as *const R as *const u8;
            let n = std::mem::size_of::<R>().min(16);
            let mut h = 0u64;
            for i in 0..n {
                h = h.wrapping_mul(0x100000001b3) ^ unsafe { *p.add(i) } as u64;
            }
            h
        }
        Err(_) => 0xdead,
    };
    acc.eval(nontriv, h);
    if !ok {
        acc.fail(&format!("{tn}::{site}"), format!("{} got={:?} want={:?}", ctx(), got, want.map_err(|_| "panic")));
    }
}

/// tolerant rule for horizontal reductions under overflow checks (DESIGN C13):
/// `must` = a panic is required, `may` = a panic is allowed (some association overflows)
/// exact integer with two views: `e` saturating (exact whenever |value| < 2^127, which includes every
/// value that could fit a lane type) and `w` wrapping (exact modulo 2^128, for the release-mode value)
#[derive(Clone, Copy, Debug, PartialEq)]
struct X {
    e: i128,
    w: i128,
}
impl X {
    fn new(v: i128) -> X {
        X { e: v, w: v }
    }
    fn abs(self) -> X {
        if self.e < 0 {
            -self
        } else {
            self
        }
    }
}
impl Add for X {
    type Output = X;
    fn add(self, o: X) -> X {
        X { e: self.e.saturating_add(o.e), w: self.w.wrapping_add(o.w) }
    }
}
impl Sub for X {
    type Output = X;
    fn sub(self, o: X) -> X {
        X { e: self.e.saturating_sub(o.e), w: self.w.wrapping_sub(o.w) }
    }
}
impl Mul for X {
    type Output = X;
    fn mul(self, o: X) -> X {
        X { e: self.e.saturating_mul(o.e), w: self.w.wrapping_mul(o.w) }
    }
}
impl Neg for X {
    type Output = X;
    fn neg(self) -> X {
        X { e: self.e.saturating_neg(), w: self.w.wrapping_neg() }
    }
}

#[derive(Clone, Copy)]
struct Red {
    val: X,
    must: bool,
    may: bool,
}

fn fits(v: X, min: i128, max: i128) -> bool {
    v.e >= min && v.e <= max
}

/// sum of terms: required panic if the exact total does not fit; allowed if some subset sum does not
fn red_sum(terms: &[X], min: i128, max: i128, pre_must: bool) -> Red {
    let n = terms.len();
    let tot = terms.iter().fold(X::new(0), |a, b| a + *b);
    let mut may = false;
    for m in 1u32..(1 << n) {
        let mut s = X::new(0);
        for i in 0..n {
            if m >> i & 1 == 1 {
                s = s + terms[i];
            }
        }
        may |= !fits(s, min, max);
    }
    let must = pre_must || !fits(tot, min, max);
    Red { val: tot, must, may: may || must }
}
/// left-to-right fold, as the documentation of element_sum / element_product spells it
/// (`self.x + self.y + ..`): a panic is required exactly when some prefix leaves the range
fn red_fold_strict(terms: &[X], min: i128, max: i128, product: bool) -> Red {
    let cap = |s: X| if s.e.unsigned_abs() > (1u128 << 70) { X { e: s.e.signum() << 70, w: s.w } } else { s };
    let mut acc = terms[0];
    let mut must = false;
    for t in &terms[1..] {
        acc = if product { cap(acc * *t) } else { acc + *t };
        must |= !fits(acc, min, max);
    }
    Red { val: acc, must, may: must }
}
fn red_prod(terms: &[X], min: i128, max: i128) -> Red {
    let n = terms.len();
    // magnitudes are capped at 2^70 (beyond every lane type's range; a later factor 0 still gives 0),
    // so the `fits` flags are exact; the value is kept modulo 2^128 by wrapping multiplication
    let cap = |s: X| if s.e.unsigned_abs() > (1u128 << 70) { X { e: s.e.signum() << 70, w: s.w } } else { s };
    let mut tot = X::new(1);
    for t in terms {
        tot = cap(tot * *t);
    }
    let mut may = false;
    for m in 1u32..(1 << n) {
        let mut s = X::new(1);
        for i in 0..n {
            if m >> i & 1 == 1 {
                s = cap(s * terms[i]);
            }
        }
        may |= !fits(s, min, max);
    }
    let must = !fits(tot, min, max);
    Red { val: tot, must, may: may || must }
}

macro_rules! c13_type {
    // kind: s = signed (with unsigned counterpart), u = unsigned (with signed counterpart), z = usize
    ($fn:ident, $T:ident, $S:ident, $N:tt, $kind:ident, $OT:ident, $OS:ident, $US:ident, $IV:ident, $UV:ident) => {
        fn $fn(rep: &mut Report, ovf: bool) {
            type T = glam::$T;
            type S = $S;
            const N: usize = $N;
            const TN: &str = stringify!($T);
            const BITS: u32 = S::BITS;
            let signed = S::MIN != 0;
            let (smin, smax) = (S::MIN as i128, S::MAX as i128);
            let (umin, umax) = (<$US>::MIN as i128, <$US>::MAX as i128);
            let wrap = |v: i128| -> S { v as S };
            let bg: [[[S; 3]; 4]; 2] = [
                [[1, 2, 3], [3, 1, 4], [2, 3, 5], [5, 4, 6]],
                [[7, 3, 9], [0, 1, 2], [4, 5, 8], [6, 2, 7]],
            ];
            let lat: Vec<S> = if rep.thorough() {
                int_lattice(BITS, signed).into_iter().map(|v| v as S).collect()
            } else {
                int_lattice_small(BITS, signed).into_iter().map(|v| v as S).collect()
            };
            let l = lat.len() as u64;

            // ---------------------------------------------------------------- binary, lane-wise
            let binary = |a: [S; N], b: [S; N], acc: &mut Acc| {
                let va = T::from_array(a);
                let vb = T::from_array(b);
                let nz = a.iter().any(|x| *x != 0) || b.iter().any(|x| *x != 0);
                let ctx = || format!("a={:?} b={:?}", a, b);
                // lane-wise vector result
                macro_rules! lw {
                    ($site:expr, $got:expr, $f:expr) => {{
                        let got = catch(|| $got.to_array());
                        let mut want: Result<[S; N], ()> = Ok([0 as S; N]);
                        for i in 0..N {
                            match catch(|| $f(a[i], b[i])) {
                                Ok(v) => {
                                    if let Ok(w) = &mut want {
                                        w[i] = v;
                                    }
                                }
                                Err(_) => want = Err(()),
                            }
                        }
                        cmp_res(acc, TN, $site, got, want, nz, &ctx);
                    }};
                }
                // vector (op) scalar b[0]
                macro_rules! lws {
                    ($site:expr, $got:expr, $f:expr) => {{
                        let got = catch(|| $got.to_array());
                        let mut want: Result<[S; N], ()> = Ok([0 as S; N]);
                        for i in 0..N {
                            match catch(|| $f(a[i], b[0])) {
                                Ok(v) => {
                                    if let Ok(w) = &mut want {
                                        w[i] = v;
                                    }
                                }
                                Err(_) => want = Err(()),
                            }
                        }
                        cmp_res(acc, TN, $site, got, want, nz, &|| format!("v={:?} s={:?}", a, b[0]));
                    }};
                }
                macro_rules! arith {
                    ($name:literal, $tr:ident, $m:ident, $tra:ident, $ma:ident, $f:expr) => {{
                        lw!($name, va.$m(vb), $f);
                        lw!(concat!($name, "_ref"), (&va).$m(&vb), $f);
                        lw!(concat!($name, "_ref1"), (&va).$m(vb), $f);
                        lw!(concat!($name, "_ref2"), va.$m(&vb), $f);
                        lw!(concat!($name, "_assign"), { let mut t = va; t.$ma(vb); t }, $f);
                        lw!(concat!($name, "_assign_ref"), { let mut t = va; t.$ma(&vb); t }, $f);
                        let s = b[0];
                        lws!(concat!($name, "_scalar"), va.$m(s), $f);
                        lws!(concat!($name, "_scalar_ref"), (&va).$m(&s), $f);
                        lws!(concat!($name, "_scalar_ref1"), (&va).$m(s), $f);
                        lws!(concat!($name, "_scalar_ref2"), va.$m(&s), $f);
                        lws!(concat!($name, "_assign_scalar"), { let mut t = va; t.$ma(s); t }, $f);
                        lws!(concat!($name, "_assign_scalar_ref"), { let mut t = va; t.$ma(&s); t }, $f);
                        lws!(concat!("scalar_", $name), <S as $tr<T>>::$m(s, va), |x: S, y: S| $f(y, x));
                        lws!(concat!("scalar_", $name, "_ref"), <&S as $tr<&T>>::$m(&s, &va), |x: S, y: S| $f(y, x));
                        lws!(concat!("scalar_", $name, "_ref1"), <&S as $tr<T>>::$m(&s, va), |x: S, y: S| $f(y, x));
                        lws!(concat!("scalar_", $name, "_ref2"), <S as $tr<&T>>::$m(s, &va), |x: S, y: S| $f(y, x));
                    }};
                }
                arith!("add", Add, add, AddAssign, add_assign, |x: S, y: S| x + y);
                arith!("sub", Sub, sub, SubAssign, sub_assign, |x: S, y: S| x - y);
                arith!("mul", Mul, mul, MulAssign, mul_assign, |x: S, y: S| x * y);
                arith!("div", Div, div, DivAssign, div_assign, |x: S, y: S| x / y);
                arith!("rem", Rem, rem, RemAssign, rem_assign, |x: S, y: S| x % y);
                lw!("min", va.min(vb), |x: S, y: S| x.min(y));
                lw!("max", va.max(vb), |x: S, y: S| x.max(y));
                lw!("wrapping_add", va.wrapping_add(vb), S::wrapping_add);
                lw!("wrapping_sub", va.wrapping_sub(vb), S::wrapping_sub);
                lw!("wrapping_mul", va.wrapping_mul(vb), S::wrapping_mul);
                lw!("wrapping_div", va.wrapping_div(vb), S::wrapping_div);
                lw!("saturating_add", va.saturating_add(vb), S::saturating_add);
                lw!("saturating_sub", va.saturating_sub(vb), S::saturating_sub);
                lw!("saturating_mul", va.saturating_mul(vb), S::saturating_mul);
                lw!("saturating_div", va.saturating_div(vb), S::saturating_div);
                lw!("bitand", va & vb, |x: S, y: S| x & y);
                lw!("bitor", va | vb, |x: S, y: S| x | y);
                lw!("bitxor", va ^ vb, |x: S, y: S| x ^ y);
                lws!("bitand_scalar", va & b[0], |x: S, y: S| x & y);
                lws!("bitor_scalar", va | b[0], |x: S, y: S| x | y);
                lws!("bitxor_scalar", va ^ b[0], |x: S, y: S| x ^ y);
                lw!("not", !va, |x: S, _y: S| !x);
                // checked_*: None iff some lane's primitive is None
                macro_rules! chk {
                    ($site:literal, $m:ident) => {{
                        let got = catch(|| va.$m(vb).map(|v| v.to_array()));
                        let mut w = Some([0 as S; N]);
                        for i in 0..N {
                            match a[i].$m(b[i]) {
                                Some(v) => {
                                    if let Some(ww) = &mut w {
                                        ww[i] = v;
                                    }
                                }
                                None => w = None,
                            }
                        }
                        cmp_res(acc, TN, $site, got, Ok(w), nz, &ctx);
                    }};
                }
                chk!("checked_add", checked_add);
                chk!("checked_sub", checked_sub);
                chk!("checked_mul", checked_mul);
                chk!("checked_div", checked_div);
                // mixed signedness forms: the other operand reinterprets b's bits
                c13_type!(@mixed $kind, acc, TN, va, a, b, nz, $OT, $OS, N);
                c13_type!(@signed_binary $kind, acc, TN, va, vb, a, b, nz, N, S, lw, ctx, ovf, smin, smax, $N);
                // ---- horizontal reductions
                let ai: Vec<X> = a.iter().map(|x| X::new(*x as i128)).collect();
                let bi: Vec<X> = b.iter().map(|x| X::new(*x as i128)).collect();
                macro_rules! red {
                    ($site:literal, $got:expr, $r:expr, $RT:ty, $rmin:expr, $rmax:expr) => {{
                        let got = catch(|| $got);
                        let r: Red = $r;
                        let ok = match &got {
                            Ok(g) => {
                                if ovf {
                                    !r.must && (*g as i128) == r.val.e
                                } else {
                                    *g == (r.val.w as $RT)
                                }
                            }
                            Err(_) => ovf && r.may,
                        };
                        acc.eval(nz, got.as_ref().map(|g| *g as u64).unwrap_or(0xdead));
                        if !ok {
                            acc.fail(&format!("{TN}::{}", $site), format!("a={:?} b={:?} got={:?} exact={:?} must_panic={} may_panic={} overflow_checks={}", a, b, got, r.val.e, r.must, r.may, ovf));
                        }
                    }};
                }
                {
                    let prods: Vec<X> = (0..N).map(|i| ai[i] * bi[i]).collect();
                    let pm = prods.iter().any(|p| !fits(*p, smin, smax));
                    red!("dot", va.dot(vb), red_sum(&prods, smin, smax, pm), S, smin, smax);
                    let got = catch(|| va.dot_into_vec(vb).to_array());
                    let r = red_sum(&prods, smin, smax, pm);
                    let ok = match &got {
                        Ok(g) => g.iter().all(|x| if ovf { !r.must && (*x as i128) == r.val.e } else { *x == r.val.w as S }),
                        Err(_) => ovf && r.may,
                    };
                    acc.eval(nz, 1);
                    if !ok {
                        acc.fail(&format!("{TN}::dot_into_vec"), format!("a={:?} b={:?} got={:?} exact={:?}", a, b, got, r.val.e));
                    }
                    let sq: Vec<X> = (0..N).map(|i| ai[i] * ai[i]).collect();
                    let sm = sq.iter().any(|p| !fits(*p, smin, smax));
                    red!("length_squared", va.length_squared(), red_sum(&sq, smin, smax, sm), S, smin, smax);
                    red!("element_sum", va.element_sum(), red_fold_strict(&ai, smin, smax, false), S, smin, smax);
                    red!("element_product", va.element_product(), red_fold_strict(&ai, smin, smax, true), S, smin, smax);
                    // manhattan / chebyshev: results in the unsigned counterpart type
                    let ad: Vec<X> = (0..N).map(|i| (ai[i] - bi[i]).abs()).collect();
                    red!("manhattan_distance", va.manhattan_distance(vb), red_sum(&ad, umin, umax, false), $US, umin, umax);
                    let tot = ad.iter().fold(X::new(0), |a, b| a + *b);
                    let got = catch(|| va.checked_manhattan_distance(vb));
                    let want = if fits(tot, umin, umax) { Some(tot.w as $US) } else { None };
                    cmp_res(acc, TN, "checked_manhattan_distance", got, Ok(want), nz, &ctx);
                    let got = catch(|| va.chebyshev_distance(vb));
                    cmp_res(acc, TN, "chebyshev_distance", got, Ok(ad.iter().map(|x| x.e).max().unwrap() as $US), nz, &ctx);
                }
                // min/max element and positions
                {
                    let mn = *a.iter().min().unwrap();
                    let mx = *a.iter().max().unwrap();
                    cmp_res(acc, TN, "min_element", catch(|| va.min_element()), Ok(mn), nz, &ctx);
                    cmp_res(acc, TN, "max_element", catch(|| va.max_element()), Ok(mx), nz, &ctx);
                    cmp_res(acc, TN, "min_position", catch(|| va.min_position()), Ok(a.iter().position(|x| *x == mn).unwrap()), nz, &ctx);
                    cmp_res(acc, TN, "max_position", catch(|| va.max_position()), Ok(a.iter().position(|x| *x == mx).unwrap()), nz, &ctx);
                }
                c13_type!(@dim $N, $kind, acc, TN, va, vb, a, b, ai, bi, nz, ovf, smin, smax, S, ctx);
            };
            let place = |x: S, y: S, lane: usize, bgi: usize| -> ([S; N], [S; N]) {
                let mut a = [0 as S; N];
                let mut b = [0 as S; N];
                for i in 0..N {
                    if lane == N || lane == i {
                        a[i] = x;
                        b[i] = y;
                    } else {
                        a[i] = bg[bgi][i][0];
                        b[i] = bg[bgi][i][1];
                    }
                }
                (a, b)
            };
            // boundary lattice, all pairs, full lane isolation
            let latr = &lat;
            rep.sweep(&format!("{TN}/binary/LATTICE^2({}) x lane-isolation", lat.len()), l * l * (N as u64 + 1) * 2, |idx, acc| {
                let d = digits(idx, [l, l, N as u64 + 1, 2]);
                let (a, b) = place(latr[d[0]], latr[d[1]], d[2], d[3]);
                binary(a, b, acc);
            });
            // every N-tuple over seven extreme values as the first operand (second operand: three fixed
            // tuples): horizontal reductions see every combination of lanes, e.g. (MIN, 0, MAX, 1), where
            // the documented left-to-right sum does not overflow but another association does
            {
                let ext: [S; 7] = if S::MIN != 0 { [S::MIN, S::MIN + 1, (0 as S).wrapping_sub(1), 0, 1, S::MAX - 1, S::MAX] } else { [0, 1, 2, S::MAX / 2, S::MAX / 2 + 1, S::MAX - 1, S::MAX] };
                let nt = 7u64.pow(N as u32);
                rep.sweep(&format!("{TN}/binary/all {N}-tuples over 7 extreme values x 3 partners"), nt * 3, |idx, acc| {
                    let mut k = idx % nt;
                    let mut a = [0 as S; N];
                    for i in 0..N { a[i] = ext[(k % 7) as usize]; k /= 7; }
                    let b: [S; N] = match idx / nt { 0 => [1 as S; N], 1 => a, _ => core::array::from_fn(|i| ext[(i * 2 + 1) % 7]) };
                    binary(a, b, acc);
                });
            }
            // 8-bit types: all 65536 operand pairs (every placement in release / thorough; the
            // all-lanes placement under overflow checks in the quick tier, where most pairs unwind)
            if BITS == 8 {
                let places: u64 = if !ovf || rep.thorough() { N as u64 + 1 } else { 1 };
                rep.sweep(&format!("{TN}/binary/ALL_PAIRS(65536) x {} placements", places), 65536 * places, |idx, acc| {
                    let d = digits(idx, [256, 256, places]);
                    let (a, b) = place((d[0] as i128 + smin) as S, (d[1] as i128 + smin) as S, N - d[2], 0);
                    binary(a, b, acc);
                });
            }

            // 16-bit types, thorough tier, release profile: all 2^32 operand pairs through every lane
            // (lane j sees the pair shifted by a lane-specific offset) for the core arithmetic families
            if BITS == 16 && rep.thorough() && !ovf {
                rep.sweep(&format!("{TN}/binary/ALL_PAIRS_16(2^32) core arithmetic, rotated through lanes"), 1u64 << 32, |idx, acc| {
                    let (x, y) = ((idx & 0xFFFF) as u16, (idx >> 16) as u16);
                    let mut a = [0 as S; N];
                    let mut b = [0 as S; N];
                    for j in 0..N {
                        a[j] = x.wrapping_add((j as u16).wrapping_mul(0x4F1B)) as S;
                        b[j] = y.wrapping_add((j as u16).wrapping_mul(0x9E37)) as S;
                    }
                    let (va, vb) = (T::from_array(a), T::from_array(b));
                    // every call sees opaque operands: rustc 1.95 at opt-level >= 2 merges `va * vb` with a
                    // following `va.saturating_mul(vb)` of U16Vec2 into the wrapping product when both are
                    // inlined into one function (a toolchain miscompilation, absent at opt-level 1 and on
                    // nightly 1.97; reproduced without this harness' explorer) - see DESIGN 8.4
                    let bb = std::hint::black_box::<T>;
                    macro_rules! core {
                        ($site:literal, $got:expr, $f:expr) => {{
                            let g: [S; N] = $got.to_array();
                            let mut ok = true;
                            for j in 0..N { ok &= g[j] == $f(a[j], b[j]); }
                            acc.eval(true, g[0] as u64 ^ (g[N - 1] as u64) << 16);
                            if !ok { acc.fail(&format!("{TN}::{}", $site), format!("a={:?} b={:?} got={:?}", a, b, g)); }
                        }};
                    }
                    core!("add", bb(va) + bb(vb), S::wrapping_add);
                    core!("sub", bb(va) - bb(vb), S::wrapping_sub);
                    core!("mul", bb(va) * bb(vb), S::wrapping_mul);
                    core!("wrapping_add", bb(va).wrapping_add(bb(vb)), S::wrapping_add);
                    core!("wrapping_sub", bb(va).wrapping_sub(bb(vb)), S::wrapping_sub);
                    core!("wrapping_mul", bb(va).wrapping_mul(bb(vb)), S::wrapping_mul);
                    core!("saturating_add", bb(va).saturating_add(bb(vb)), S::saturating_add);
                    core!("saturating_sub", bb(va).saturating_sub(bb(vb)), S::saturating_sub);
                    core!("saturating_mul", bb(va).saturating_mul(bb(vb)), S::saturating_mul);
                    core!("min", bb(va).min(bb(vb)), |p: S, q: S| p.min(q));
                    core!("max", bb(va).max(bb(vb)), |p: S, q: S| p.max(q));
                    macro_rules! corec {
                        ($site:literal, $m:ident) => {{
                            let g = bb(va).$m(bb(vb)).map(|v| v.to_array());
                            let mut w = Some([0 as S; N]);
                            for j in 0..N { match a[j].$m(b[j]) { Some(v) => { if let Some(ww) = &mut w { ww[j] = v; } } None => w = None } }
                            acc.eval(true, g.is_some() as u64);
                            if g != w { acc.fail(&format!("{TN}::{}", $site), format!("a={:?} b={:?} got={:?} want={:?}", a, b, g, w)); }
                        }};
                    }
                    corec!("checked_add", checked_add);
                    corec!("checked_sub", checked_sub);
                    corec!("checked_mul", checked_mul);
                    corec!("checked_div", checked_div);
                    // division family: panics iff some lane divides by zero (or MIN / -1)
                    let bad = (0..N).any(|j| a[j].checked_div(b[j]).is_none());
                    if bad {
                        let r = catch(|| (bb(va) / bb(vb)).to_array());
                        acc.eval(true, 0xdead);
                        if r.is_ok() { acc.fail(&format!("{TN}::div"), format!("a={:?} b={:?} did not panic", a, b)); }
                    } else {
                        core!("div", bb(va) / bb(vb), |p: S, q: S| p / q);
                        core!("rem", bb(va) % bb(vb), |p: S, q: S| p % q);
                        core!("wrapping_div", bb(va).wrapping_div(bb(vb)), S::wrapping_div);
                        core!("saturating_div", bb(va).saturating_div(bb(vb)), S::saturating_div);
                    }
                });
            }

            // ---------------------------------------------------------------- shifts
            {
                let vals: Vec<S> = int_lattice_small(BITS, signed).into_iter().map(|v| v as S).collect();
                let nv = vals.len() as u64;
                macro_rules! shifts {
                    ($CT:ident) => {{
                        let cb = <$CT>::BITS;
                        let csigned = <$CT>::MIN != 0;
                        let mut counts: Vec<$CT> = vec![0, 1, 2, 3, 7];
                        for c in [BITS as i128 - 1, BITS as i128, BITS as i128 + 1, 2 * BITS as i128, 8, 15, 16, 31, 32, 33, 63, 64, 65, 127, 128, 255, -1, -(BITS as i128), <$CT>::MIN as i128, <$CT>::MAX as i128,
                            // counts that look small once narrowed to 8 / 16 / 32 bits
                            256 + 3, 65536 + 3, (1i128 << 32) + 3, (1i128 << 32) + BITS as i128, 1i128 << 63, (1i128 << 63) + 1, -(1i128 << 32) + 3] {
                            if c >= <$CT>::MIN as i128 && c <= <$CT>::MAX as i128 {
                                counts.push(c as $CT);
                            }
                        }
                        counts.sort();
                        counts.dedup();
                        let _ = (cb, csigned);
                        let nc = counts.len() as u64;
                        let cr = &counts;
                        let vr = &vals;
                        rep.sweep(&format!("{TN}/shift<{}>/vals x counts x lane-isolation", stringify!($CT)), nv * nc * (N as u64 + 1), |idx, acc| {
                            let d = digits(idx, [nv, nc, N as u64 + 1]);
                            let mut a = [0 as S; N];
                            for i in 0..N {
                                a[i] = if d[2] == N || d[2] == i { vr[d[0]] } else { bg[0][i][0] };
                            }
                            let c = cr[d[1]];
                            let va = T::from_array(a);
                            for (site, left) in [("shl", true), ("shr", false)] {
                                let got = catch(|| if left { (va << c).to_array() } else { (va >> c).to_array() });
                                let mut want: Result<[S; N], ()> = Ok([0 as S; N]);
                                for i in 0..N {
                                    match catch(|| if left { a[i] << c } else { a[i] >> c }) {
                                        Ok(v) => {
                                            if let Ok(w) = &mut want {
                                                w[i] = v;
                                            }
                                        }
                                        Err(_) => want = Err(()),
                                    }
                                }
                                cmp_res(acc, TN, &format!("{}<{}>", site, stringify!($CT)), got, want, true, &|| format!("v={:?} count={:?}", a, c));
                            }
                        });
                    }};
                }
                shifts!(i8);
                shifts!(i16);
                shifts!(i32);
                shifts!(i64);
                shifts!(u8);
                shifts!(u16);
                shifts!(u32);
                shifts!(u64);
                // per-lane counts from IVecN / UVecN
                macro_rules! vshifts {
                    ($CV:ident, $CT:ident) => {{
                        let mut counts: Vec<$CT> = vec![0, 1, 5];
                        for c in [BITS as i128 - 1, BITS as i128, BITS as i128 + 1, 31, 32, 33, 64, -1, <$CT>::MIN as i128, <$CT>::MAX as i128] {
                            if c >= <$CT>::MIN as i128 && c <= <$CT>::MAX as i128 {
                                counts.push(c as $CT);
                            }
                        }
                        counts.sort();
                        counts.dedup();
                        let nc = counts.len() as u64;
                        let cr = &counts;
                        let vr = &vals;
                        rep.sweep(&format!("{TN}/shift<{}>/vals x counts x lane-isolation", stringify!($CV)), nv * nc * (N as u64 + 1), |idx, acc| {
                            let d = digits(idx, [nv, nc, N as u64 + 1]);
                            let mut a = [0 as S; N];
                            let mut c = [0 as $CT; N];
                            for i in 0..N {
                                if d[2] == N || d[2] == i {
                                    a[i] = vr[d[0]];
                                    c[i] = cr[d[1]];
                                } else {
                                    a[i] = bg[0][i][0];
                                    c[i] = (i + 1) as $CT;
                                }
                            }
                            let va = T::from_array(a);
                            let vc = glam::$CV::from_array(c);
                            for (site, left) in [("shl", true), ("shr", false)] {
                                let got = catch(|| if left { (va << vc).to_array() } else { (va >> vc).to_array() });
                                let mut want: Result<[S; N], ()> = Ok([0 as S; N]);
                                for i in 0..N {
                                    match catch(|| if left { a[i] << c[i] } else { a[i] >> c[i] }) {
                                        Ok(v) => {
                                            if let Ok(w) = &mut want {
                                                w[i] = v;
                                            }
                                        }
                                        Err(_) => want = Err(()),
                                    }
                                }
                                cmp_res(acc, TN, &format!("{}<{}>", site, stringify!($CV)), got, want, true, &|| format!("v={:?} counts={:?}", a, c));
                            }
                        });
                    }};
                }
                vshifts!($IV, i32);
                vshifts!($UV, u32);
            }

            // ---------------------------------------------------------------- ternary: clamp, Sum, Product
            {
                let sm: Vec<S> = int_lattice_small(BITS, signed).into_iter().map(|v| v as S).collect();
                let l = sm.len() as u64;
                let smr = &sm;
                rep.sweep(&format!("{TN}/ternary/SMALL^3 x lane-isolation"), l * l * l * (N as u64 + 1), |idx, acc| {
                    let d = digits(idx, [l, l, l, N as u64 + 1]);
                    let mut a = [0 as S; N];
                    let mut b = [0 as S; N];
                    let mut c = [0 as S; N];
                    for i in 0..N {
                        if d[3] == N || d[3] == i {
                            a[i] = smr[d[0]];
                            b[i] = smr[d[1]];
                            c[i] = smr[d[2]];
                        } else {
                            a[i] = bg[0][i][0];
                            b[i] = bg[0][i][1];
                            c[i] = bg[0][i][2];
                        }
                    }
                    let (va, vb, vc) = (T::from_array(a), T::from_array(b), T::from_array(c));
                    let ctx = || format!("a={:?} b={:?} c={:?}", a, b, c);
                    if (0..N).all(|i| b[i] <= c[i]) {
                        let mut w = [0 as S; N];
                        for i in 0..N {
                            w[i] = a[i].clamp(b[i], c[i]);
                        }
                        cmp_res(acc, TN, "clamp", catch(|| va.clamp(vb, vc).to_array()), Ok(w), true, &ctx);
                    }
                    for len in 0..=3usize {
                        let seq = [va, vb, vc];
                        let arr = [a, b, c];
                        macro_rules! fold {
                            ($site:literal, $got:expr, $lane:expr) => {{
                                let got = catch(|| { let t: T = $got; t.to_array() });
                                let mut want: Result<[S; N], ()> = Ok([0 as S; N]);
                                for i in 0..N {
                                    match catch(|| -> S { $lane(arr[..len].iter().map(move |v| v[i])) }) {
                                        Ok(v) => {
                                            if let Ok(w) = &mut want {
                                                w[i] = v;
                                            }
                                        }
                                        Err(_) => want = Err(()),
                                    }
                                }
                                cmp_res(acc, TN, $site, got, want, len > 0, &|| format!("seq={:?}", &arr[..len]));
                            }};
                        }
                        fold!("sum", seq[..len].iter().copied().sum(), |it| Iterator::sum(it));
                        fold!("sum_ref", seq[..len].iter().sum(), |it| Iterator::sum(it));
                        fold!("product", seq[..len].iter().copied().product(), |it| Iterator::product(it));
                        fold!("product_ref", seq[..len].iter().product(), |it| Iterator::product(it));
                    }
                });
            }
        }
    };

    // ---- mixed-signedness forms
    (@mixed s, $acc:ident, $TN:ident, $va:ident, $a:ident, $b:ident, $nz:ident, $OT:ident, $OS:ident, $N:ident) => {{
        let ob: [$OS; $N] = $b.map(|x| x as $OS);
        let vob = glam::$OT::from_array(ob);
        let ctx = || format!("a={:?} rhs_unsigned={:?}", $a, ob);
        macro_rules! mx {
            ($site:literal, $m:ident) => {{
                let got = catch(|| $va.$m(vob).to_array());
                let mut w = [0; $N];
                for i in 0..$N {
                    w[i] = $a[i].$m(ob[i]);
                }
                cmp_res($acc, $TN, $site, got, Ok(w), $nz, &ctx);
            }};
        }
        macro_rules! mxc {
            ($site:literal, $m:ident) => {{
                let got = catch(|| $va.$m(vob).map(|v| v.to_array()));
                let mut w = Some([0; $N]);
                for i in 0..$N {
                    match $a[i].$m(ob[i]) {
                        Some(v) => {
                            if let Some(ww) = &mut w {
                                ww[i] = v;
                            }
                        }
                        None => w = None,
                    }
                }
                cmp_res($acc, $TN, $site, got, Ok(w), $nz, &ctx);
            }};
        }
        mxc!("checked_add_unsigned", checked_add_unsigned);
        mxc!("checked_sub_unsigned", checked_sub_unsigned);
        mx!("wrapping_add_unsigned", wrapping_add_unsigned);
        mx!("wrapping_sub_unsigned", wrapping_sub_unsigned);
        mx!("saturating_add_unsigned", saturating_add_unsigned);
        mx!("saturating_sub_unsigned", saturating_sub_unsigned);
    }};
    (@mixed u, $acc:ident, $TN:ident, $va:ident, $a:ident, $b:ident, $nz:ident, $OT:ident, $OS:ident, $N:ident) => {{
        let ob: [$OS; $N] = $b.map(|x| x as $OS);
        let vob = glam::$OT::from_array(ob);
        let ctx = || format!("a={:?} rhs_signed={:?}", $a, ob);
        {
            let got = catch(|| $va.checked_add_signed(vob).map(|v| v.to_array()));
            let mut w = Some([0; $N]);
            for i in 0..$N {
                match $a[i].checked_add_signed(ob[i]) {
                    Some(v) => {
                        if let Some(ww) = &mut w {
                            ww[i] = v;
                        }
                    }
                    None => w = None,
                }
            }
            cmp_res($acc, $TN, "checked_add_signed", got, Ok(w), $nz, &ctx);
        }
        {
            let got = catch(|| $va.wrapping_add_signed(vob).to_array());
            let mut w = [0; $N];
            for i in 0..$N {
                w[i] = $a[i].wrapping_add_signed(ob[i]);
            }
            cmp_res($acc, $TN, "wrapping_add_signed", got, Ok(w), $nz, &ctx);
        }
        {
            let got = catch(|| $va.saturating_add_signed(vob).to_array());
            let mut w = [0; $N];
            for i in 0..$N {
                w[i] = $a[i].saturating_add_signed(ob[i]);
            }
            cmp_res($acc, $TN, "saturating_add_signed", got, Ok(w), $nz, &ctx);
        }
    }};
    (@mixed z, $acc:ident, $TN:ident, $va:ident, $a:ident, $b:ident, $nz:ident, $OT:ident, $OS:ident, $N:ident) => {{}};

    // ---- signed-only lane-wise ops
    (@signed_binary s, $acc:ident, $TN:ident, $va:ident, $vb:ident, $a:ident, $b:ident, $nz:ident, $N:ident, $S:ident, $lw:ident, $ctx:ident, $ovf:ident, $smin:ident, $smax:ident, $NN:tt) => {{
        $lw!("neg", -$va, |x: $S, _y: $S| -x);
        $lw!("neg_ref", -&$va, |x: $S, _y: $S| -x);
        $lw!("abs", $va.abs(), |x: $S, _y: $S| x.abs());
        $lw!("signum", $va.signum(), |x: $S, _y: $S| x.signum());
        $lw!("div_euclid", $va.div_euclid($vb), |x: $S, y: $S| x.div_euclid(y));
        $lw!("rem_euclid", $va.rem_euclid($vb), |x: $S, y: $S| x.rem_euclid(y));
        let mut m = 0u32;
        for i in 0..$N {
            m |= (($a[i] < 0) as u32) << i;
        }
        cmp_res($acc, $TN, "is_negative_bitmask", catch(|| $va.is_negative_bitmask()), Ok(m), $nz, &$ctx);
        // distance_squared = sum of (a-b)^2
        {
            let mut must = false;
            let mut terms = vec![];
            for i in 0..$N {
                let d = X::new($a[i] as i128) - X::new($b[i] as i128);
                must |= !fits(d, $smin, $smax);
                // in wrapping arithmetic the square of the wrapped difference is congruent to the exact square
                let sq = d * d;
                must |= !fits(sq, $smin, $smax);
                terms.push(sq);
            }
            let r = red_sum(&terms, $smin, $smax, must);
            let got = catch(|| $va.distance_squared($vb));
            let ok = match &got {
                Ok(g) => {
                    if $ovf {
                        !r.must && (*g as i128) == r.val.e
                    } else {
                        *g == (r.val.w as $S)
                    }
                }
                Err(_) => $ovf && r.may,
            };
            $acc.eval($nz, got.as_ref().map(|g| *g as u64).unwrap_or(0xdead));
            if !ok {
                $acc.fail(&format!("{}::distance_squared", $TN), format!("a={:?} b={:?} got={:?} exact={:?} must={} may={}", $a, $b, got, r.val.e, r.must, r.may));
            }
        }
    }};
    (@signed_binary $k:ident, $acc:ident, $TN:ident, $va:ident, $vb:ident, $a:ident, $b:ident, $nz:ident, $N:ident, $S:ident, $lw:ident, $ctx:ident, $ovf:ident, $smin:ident, $smax:ident, $NN:tt) => {{}};

    // ---- dimension specific: cross (3), perp/perp_dot/rotate (2, signed)
    (@dim 3, $kind:ident, $acc:ident, $TN:ident, $va:ident, $vb:ident, $a:ident, $b:ident, $ai:ident, $bi:ident, $nz:ident, $ovf:ident, $smin:ident, $smax:ident, $S:ident, $ctx:ident) => {{
        let got = catch(|| $va.cross($vb).to_array());
        let mut must = false;
        let mut w = [X::new(0); 3];
        for (k, (i, j)) in [(1usize, 2usize), (2, 0), (0, 1)].iter().enumerate() {
            let p = $ai[*i] * $bi[*j];
            let q = $ai[*j] * $bi[*i];
            must |= !fits(p, $smin, $smax) || !fits(q, $smin, $smax) || !fits(p - q, $smin, $smax);
            w[k] = p - q;
        }
        let ok = match &got {
            Ok(g) => (!$ovf || !must) && (0..3).all(|k| g[k] == w[k].w as $S),
            Err(_) => $ovf && must,
        };
        $acc.eval($nz, got.as_ref().map(|g| g[0] as u64 ^ ((g[1] as u64) << 20) ^ ((g[2] as u64) << 40)).unwrap_or(0xdead));
        if !ok {
            $acc.fail(&format!("{}::cross", $TN), format!("a={:?} b={:?} got={:?} exact={:?} must_panic={}", $a, $b, got, w, must));
        }
    }};
    (@dim 2, s, $acc:ident, $TN:ident, $va:ident, $vb:ident, $a:ident, $b:ident, $ai:ident, $bi:ident, $nz:ident, $ovf:ident, $smin:ident, $smax:ident, $S:ident, $ctx:ident) => {{
        // perp = (-y, x)
        {
            let got = catch(|| $va.perp().to_array());
            let must = !fits(-$ai[1], $smin, $smax);
            let ok = match &got {
                Ok(g) => (!$ovf || !must) && g[0] == (-$ai[1]).w as $S && g[1] == $a[0],
                Err(_) => $ovf && must,
            };
            $acc.eval($nz, 1);
            if !ok {
                $acc.fail(&format!("{}::perp", $TN), format!("a={:?} got={:?}", $a, got));
            }
        }
        // perp_dot = x*rhs.y - y*rhs.x ; rotate = (x*rx - y*ry, y*rx + x*ry)
        let two = |p: X, q: X, minus: bool| -> (X, bool) {
            let r = if minus { p - q } else { p + q };
            (r, !fits(p, $smin, $smax) || !fits(q, $smin, $smax) || !fits(r, $smin, $smax))
        };
        {
            let (w, must) = two($ai[0] * $bi[1], $ai[1] * $bi[0], true);
            let got = catch(|| $va.perp_dot($vb));
            let ok = match &got {
                Ok(g) => (!$ovf || !must) && *g == w.w as $S,
                Err(_) => $ovf && must,
            };
            $acc.eval($nz, 2);
            if !ok {
                $acc.fail(&format!("{}::perp_dot", $TN), format!("a={:?} b={:?} got={:?} exact={:?}", $a, $b, got, w.e));
            }
        }
        {
            // documented: rhs.rotate(self)? glam: self.rotate(rhs) = (self.x*rhs.x - self.y*rhs.y, self.y*rhs.x + self.x*rhs.y)
            let (w0, m0) = two($ai[0] * $bi[0], $ai[1] * $bi[1], true);
            let (w1, m1) = two($ai[1] * $bi[0], $ai[0] * $bi[1], false);
            let must = m0 || m1;
            let got = catch(|| $va.rotate($vb).to_array());
            let ok = match &got {
                Ok(g) => (!$ovf || !must) && g[0] == w0.w as $S && g[1] == w1.w as $S,
                Err(_) => $ovf && must,
            };
            $acc.eval($nz, 3);
            if !ok {
                $acc.fail(&format!("{}::rotate", $TN), format!("a={:?} b={:?} got={:?} exact=({:?}, {:?})", $a, $b, got, w0.e, w1.e));
            }
        }
    }};
    (@dim $n:tt, $kind:ident, $acc:ident, $TN:ident, $va:ident, $vb:ident, $a:ident, $b:ident, $ai:ident, $bi:ident, $nz:ident, $ovf:ident, $smin:ident, $smax:ident, $S:ident, $ctx:ident) => {{}};
}

c13_type!(i8v2, I8Vec2, i8, 2, s, U8Vec2, u8, u8, IVec2, UVec2);
c13_type!(i8v3, I8Vec3, i8, 3, s, U8Vec3, u8, u8, IVec3, UVec3);
c13_type!(i8v4, I8Vec4, i8, 4, s, U8Vec4, u8, u8, IVec4, UVec4);
c13_type!(u8v2, U8Vec2, u8, 2, u, I8Vec2, i8, u8, IVec2, UVec2);
c13_type!(u8v3, U8Vec3, u8, 3, u, I8Vec3, i8, u8, IVec3, UVec3);
c13_type!(u8v4, U8Vec4, u8, 4, u, I8Vec4, i8, u8, IVec4, UVec4);
c13_type!(i16v2, I16Vec2, i16, 2, s, U16Vec2, u16, u16, IVec2, UVec2);
c13_type!(i16v3, I16Vec3, i16, 3, s, U16Vec3, u16, u16, IVec3, UVec3);
c13_type!(i16v4, I16Vec4, i16, 4, s, U16Vec4, u16, u16, IVec4, UVec4);
c13_type!(u16v2, U16Vec2, u16, 2, u, I16Vec2, i16, u16, IVec2, UVec2);
c13_type!(u16v3, U16Vec3, u16, 3, u, I16Vec3, i16, u16, IVec3, UVec3);
c13_type!(u16v4, U16Vec4, u16, 4, u, I16Vec4, i16, u16, IVec4, UVec4);
c13_type!(iv2, IVec2, i32, 2, s, UVec2, u32, u32, IVec2, UVec2);
c13_type!(iv3, IVec3, i32, 3, s, UVec3, u32, u32, IVec3, UVec3);
c13_type!(iv4, IVec4, i32, 4, s, UVec4, u32, u32, IVec4, UVec4);
c13_type!(uv2, UVec2, u32, 2, u, IVec2, i32, u32, IVec2, UVec2);
c13_type!(uv3, UVec3, u32, 3, u, IVec3, i32, u32, IVec3, UVec3);
c13_type!(uv4, UVec4, u32, 4, u, IVec4, i32, u32, IVec4, UVec4);
c13_type!(i64v2, I64Vec2, i64, 2, s, U64Vec2, u64, u64, IVec2, UVec2);
c13_type!(i64v3, I64Vec3, i64, 3, s, U64Vec3, u64, u64, IVec3, UVec3);
c13_type!(i64v4, I64Vec4, i64, 4, s, U64Vec4, u64, u64, IVec4, UVec4);
c13_type!(u64v2, U64Vec2, u64, 2, u, I64Vec2, i64, u64, IVec2, UVec2);
c13_type!(u64v3, U64Vec3, u64, 3, u, I64Vec3, i64, u64, IVec3, UVec3);
c13_type!(u64v4, U64Vec4, u64, 4, u, I64Vec4, i64, u64, IVec4, UVec4);
c13_type!(usv2, USizeVec2, usize, 2, z, USizeVec2, usize, usize, IVec2, UVec2);
c13_type!(usv3, USizeVec3, usize, 3, z, USizeVec3, usize, usize, IVec3, UVec3);
c13_type!(usv4, USizeVec4, usize, 4, z, USizeVec4, usize, usize, IVec4, UVec4);

fn main() {
    let mut rep = Report::new("C13", "exploration");
    silence_panics();
    let ovf = overflow_checks_on();
    rep.extra.insert("overflow_checks".into(), json!(ovf));
    rep.rule("cases = (type, operation, operand pair/triple placed in one lane or all lanes over benign background lanes); 8-bit types: all 65536 operand pairs; wider types: boundary lattice, all pairs; one evaluation = one real glam call (under catch_unwind) compared with the primitive evaluated per lane in the same build profile (panic parity included); non-trivial = operands not all zero");
    for f in [
        i8v2, i8v3, i8v4, u8v2, u8v3, u8v4, i16v2, i16v3, i16v4, u16v2, u16v3, u16v4, iv2, iv3, iv4, uv2, uv3, uv4, i64v2, i64v3, i64v4, u64v2, u64v3,
        u64v4, usv2, usv3, usv4,
    ] {
        f(&mut rep, ovf);
    }
    rep.sample(json!({"space": "I8Vec3/binary/L^2(256) x lane-isolation", "case": "lane 1 = (-128, -1), others background", "ops": "div => primitive panics (overflow) => glam must panic; wrapping_div => -128; checked_div => None"}));
    rep.sample(json!({"space": "U16Vec4/shift<i8>", "case": "v=[65535,..] count=-1", "expect": "panic iff overflow checks on, else masked shift"}));
    rep.sample(json!({"space": "I64Vec2/ternary/SMALL^3", "case": "clamp(min<=max), Sum/Product over sequences of length 0..3 with panic parity of the left fold"}));
    // every operator trait impl of the tree (inventory from the rustdoc JSON): reference, assign and
    // scalar forms agree with the by-value form decided above
    harness::opforms::run(&mut rep, "ivec", harness::opforms::OPFORMS_IVEC);
    std::process::exit(rep.finish());
}
