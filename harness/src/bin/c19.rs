//! C19 — serialisation and interop round-trip every value, identically across back-ends (E1 + E3).
//! serde is driven through an exact in-memory token stream (the carrier cannot round); serde_json
//! text of finite values is written to a stream file that the driver compares byte-for-byte between
//! the SIMD, scalar-math and core-simd builds. bytemuck / rkyv / mint are checked on tagged lanes.
#![allow(clippy::all)]

#[cfg(not(feature = "feat"))]
fn main() {
    eprintln!("c19 must be built with the `feat` feature");
    std::process::exit(2);
}

#[cfg(feature = "feat")]
mod tok {
    //! exact token-stream Serializer / Deserializer
    use serde::de::{self, DeserializeSeed, SeqAccess, Visitor};
    use serde::ser::{self, Impossible, SerializeTupleStruct};
    use serde::{Deserialize, Serialize};
    use std::fmt;

    #[derive(Clone, Debug, PartialEq)]
    pub enum Tok {
        TupleStruct(&'static str, usize),
        End,
        F32(u32),
        F64(u64),
        I(i128),
        Bool(bool),
        /// a unit variant of an enum: (index, name) as the type announces them
        Variant(u32, &'static str),
    }
    #[derive(Debug)]
    pub struct TErr(pub String);
    impl fmt::Display for TErr {
        fn fmt(&self, f: &mut fmt::Formatter<'_>) -> fmt::Result {
            write!(f, "{}", self.0)
        }
    }
    impl std::error::Error for TErr {}
    impl ser::Error for TErr {
        fn custom<T: fmt::Display>(m: T) -> Self {
            TErr(m.to_string())
        }
    }
    impl de::Error for TErr {
        fn custom<T: fmt::Display>(m: T) -> Self {
            TErr(m.to_string())
        }
    }

    pub struct Ser<'a>(pub &'a mut Vec<Tok>);
    macro_rules! ser_int {
        ($($m:ident $t:ty),*) => {$( fn $m(self, v: $t) -> Result<(), TErr> { self.0.push(Tok::I(v as i128)); Ok(()) } )*};
    }
    macro_rules! ser_no {
        ($($m:ident($($a:ty),*) -> $r:ty),*) => {$( fn $m(self $(, _: $a)*) -> Result<$r, TErr> { Result::Err(TErr(concat!("unexpected ", stringify!($m)).into())) } )*};
    }
    impl<'a> ser::Serializer for Ser<'a> {
        type Ok = ();
        type Error = TErr;
        type SerializeSeq = Impossible<(), TErr>;
        type SerializeTuple = Impossible<(), TErr>;
        type SerializeTupleStruct = SerTs<'a>;
        type SerializeTupleVariant = Impossible<(), TErr>;
        type SerializeMap = Impossible<(), TErr>;
        type SerializeStruct = Impossible<(), TErr>;
        type SerializeStructVariant = Impossible<(), TErr>;
        ser_int!(serialize_i8 i8, serialize_i16 i16, serialize_i32 i32, serialize_i64 i64, serialize_u8 u8, serialize_u16 u16, serialize_u32 u32, serialize_u64 u64);
        fn serialize_bool(self, v: bool) -> Result<(), TErr> {
            self.0.push(Tok::Bool(v));
            Ok(())
        }
        fn serialize_f32(self, v: f32) -> Result<(), TErr> {
            self.0.push(Tok::F32(v.to_bits()));
            Ok(())
        }
        fn serialize_f64(self, v: f64) -> Result<(), TErr> {
            self.0.push(Tok::F64(v.to_bits()));
            Ok(())
        }
        fn serialize_tuple_struct(self, name: &'static str, len: usize) -> Result<SerTs<'a>, TErr> {
            self.0.push(Tok::TupleStruct(name, len));
            Ok(SerTs(self.0))
        }
        ser_no!(serialize_char(char) -> (), serialize_str(&str) -> (), serialize_bytes(&[u8]) -> (), serialize_none() -> (), serialize_unit() -> (),
            serialize_unit_struct(&'static str) -> (),
            serialize_seq(Option<usize>) -> Impossible<(), TErr>, serialize_tuple(usize) -> Impossible<(), TErr>,
            serialize_tuple_variant(&'static str, u32, &'static str, usize) -> Impossible<(), TErr>, serialize_map(Option<usize>) -> Impossible<(), TErr>,
            serialize_struct(&'static str, usize) -> Impossible<(), TErr>, serialize_struct_variant(&'static str, u32, &'static str, usize) -> Impossible<(), TErr>);
        fn serialize_unit_variant(self, _name: &'static str, index: u32, variant: &'static str) -> Result<(), TErr> {
            self.0.push(Tok::Variant(index, variant));
            Ok(())
        }
        fn serialize_some<T: ?Sized + Serialize>(self, _: &T) -> Result<(), TErr> {
            Result::Err(TErr("unexpected some".into()))
        }
        fn serialize_newtype_struct<T: ?Sized + Serialize>(self, _: &'static str, _: &T) -> Result<(), TErr> {
            Result::Err(TErr("unexpected newtype struct".into()))
        }
        fn serialize_newtype_variant<T: ?Sized + Serialize>(self, _: &'static str, _: u32, _: &'static str, _: &T) -> Result<(), TErr> {
            Result::Err(TErr("unexpected newtype variant".into()))
        }
    }
    pub struct SerTs<'a>(&'a mut Vec<Tok>);
    impl<'a> SerializeTupleStruct for SerTs<'a> {
        type Ok = ();
        type Error = TErr;
        fn serialize_field<T: ?Sized + Serialize>(&mut self, v: &T) -> Result<(), TErr> {
            v.serialize(Ser(self.0))
        }
        fn end(self) -> Result<(), TErr> {
            self.0.push(Tok::End);
            Ok(())
        }
    }
    pub fn to_tokens<T: Serialize>(v: &T) -> Result<Vec<Tok>, TErr> {
        let mut t = vec![];
        v.serialize(Ser(&mut t))?;
        Ok(t)
    }

    /// strict deserializer: the token after the last consumed element must be `End`
    pub struct De<'a> {
        pub toks: &'a [Tok],
        pub pos: usize,
    }
    impl<'de, 'a> de::Deserializer<'de> for &mut De<'a> {
        type Error = TErr;
        fn deserialize_any<V: Visitor<'de>>(self, visitor: V) -> Result<V::Value, TErr> {
            let t = self.toks.get(self.pos).cloned().ok_or_else(|| TErr("eof".into()))?;
            self.pos += 1;
            match t {
                Tok::F32(b) => visitor.visit_f32(f32::from_bits(b)),
                Tok::F64(b) => visitor.visit_f64(f64::from_bits(b)),
                Tok::I(v) => {
                    if v < 0 {
                        visitor.visit_i64(v as i64)
                    } else {
                        visitor.visit_u64(v as u64)
                    }
                }
                Tok::Bool(b) => visitor.visit_bool(b),
                Tok::TupleStruct(_, n) => {
                    let r = visitor.visit_seq(Seq(self, n))?;
                    match self.toks.get(self.pos) {
                        Some(Tok::End) => {
                            self.pos += 1;
                            Ok(r)
                        }
                        _ => Result::Err(TErr("trailing elements in sequence".into())),
                    }
                }
                Tok::End => Result::Err(TErr("unexpected end".into())),
                Tok::Variant(_, _) => Result::Err(TErr("unexpected enum variant".into())),
            }
        }
        /// like length-prefixed binary formats (bincode, postcard) the carrier hands out exactly the
        /// number of elements the type announces; the stream must then be at its `End`
        fn deserialize_tuple_struct<V: Visitor<'de>>(self, _name: &'static str, len: usize, visitor: V) -> Result<V::Value, TErr> {
            match self.toks.get(self.pos) {
                Some(Tok::TupleStruct(_, _)) => self.pos += 1,
                _ => return Result::Err(TErr("expected a tuple struct".into())),
            }
            let r = visitor.visit_seq(Seq(self, len))?;
            match self.toks.get(self.pos) {
                Some(Tok::End) => {
                    self.pos += 1;
                    Ok(r)
                }
                _ => Result::Err(TErr("trailing elements in sequence".into())),
            }
        }
        /// like the non-self-describing binary formats, the carrier keeps a length-prefixed `seq` / plain
        /// `tuple` apart from a tuple struct: what was written as a tuple struct must be asked for as one
        fn deserialize_seq<V: Visitor<'de>>(self, visitor: V) -> Result<V::Value, TErr> {
            match self.toks.get(self.pos) {
                Some(Tok::TupleStruct(_, _)) => Result::Err(TErr("the type asked for a sequence, the stream holds a tuple struct".into())),
                _ => self.deserialize_any(visitor),
            }
        }
        fn deserialize_tuple<V: Visitor<'de>>(self, _len: usize, visitor: V) -> Result<V::Value, TErr> {
            match self.toks.get(self.pos) {
                Some(Tok::TupleStruct(_, _)) => Result::Err(TErr("the type asked for a tuple, the stream holds a tuple struct".into())),
                _ => self.deserialize_any(visitor),
            }
        }
        serde::forward_to_deserialize_any! {
            bool i8 i16 i32 i64 i128 u8 u16 u32 u64 u128 f32 f64 char str string bytes byte_buf option unit unit_struct newtype_struct
            map struct enum identifier ignored_any
        }
    }
    /// sequence access bounded by the announced length
    struct Seq<'b, 'a>(&'b mut De<'a>, usize);
    impl<'de, 'b, 'a> SeqAccess<'de> for Seq<'b, 'a> {
        type Error = TErr;
        fn next_element_seed<T: DeserializeSeed<'de>>(&mut self, seed: T) -> Result<Option<T::Value>, TErr> {
            if self.1 == 0 {
                return Ok(None);
            }
            match self.0.toks.get(self.0.pos) {
                Some(Tok::End) | None => Ok(None),
                _ => {
                    self.1 -= 1;
                    seed.deserialize(&mut *self.0).map(Some)
                }
            }
        }
    }
    /// a unit-variant carrier: identifies the variant by index (bincode / postcard style), by name
    /// (serde_json style) or by the bytes of the name
    pub struct VarDe { pub index: u32, pub name: &'static str, pub mode: u8 }
    struct IdDe(u32, &'static str, u8);
    impl<'de> de::Deserializer<'de> for IdDe {
        type Error = TErr;
        fn deserialize_any<V: Visitor<'de>>(self, visitor: V) -> Result<V::Value, TErr> {
            match self.2 { 0 => visitor.visit_u64(self.0 as u64), 1 => visitor.visit_str(self.1), _ => visitor.visit_bytes(self.1.as_bytes()) }
        }
        serde::forward_to_deserialize_any! {
            bool i8 i16 i32 i64 i128 u8 u16 u32 u64 u128 f32 f64 char str string bytes byte_buf option unit unit_struct newtype_struct seq tuple
            tuple_struct map struct enum identifier ignored_any
        }
    }
    impl<'de> de::EnumAccess<'de> for VarDe {
        type Error = TErr;
        type Variant = UnitOnly;
        fn variant_seed<S: DeserializeSeed<'de>>(self, seed: S) -> Result<(S::Value, UnitOnly), TErr> {
            Ok((seed.deserialize(IdDe(self.index, self.name, self.mode))?, UnitOnly))
        }
    }
    pub struct UnitOnly;
    impl<'de> de::VariantAccess<'de> for UnitOnly {
        type Error = TErr;
        fn unit_variant(self) -> Result<(), TErr> { Ok(()) }
        fn newtype_variant_seed<T: DeserializeSeed<'de>>(self, _: T) -> Result<T::Value, TErr> { Result::Err(TErr("not a unit variant".into())) }
        fn tuple_variant<V: Visitor<'de>>(self, _: usize, _: V) -> Result<V::Value, TErr> { Result::Err(TErr("not a unit variant".into())) }
        fn struct_variant<V: Visitor<'de>>(self, _: &'static [&'static str], _: V) -> Result<V::Value, TErr> { Result::Err(TErr("not a unit variant".into())) }
    }
    impl<'de> de::Deserializer<'de> for VarDe {
        type Error = TErr;
        fn deserialize_any<V: Visitor<'de>>(self, visitor: V) -> Result<V::Value, TErr> { visitor.visit_enum(self) }
        fn deserialize_enum<V: Visitor<'de>>(self, _: &'static str, _: &'static [&'static str], visitor: V) -> Result<V::Value, TErr> { visitor.visit_enum(self) }
        serde::forward_to_deserialize_any! {
            bool i8 i16 i32 i64 i128 u8 u16 u32 u64 u128 f32 f64 char str string bytes byte_buf option unit unit_struct newtype_struct seq tuple
            tuple_struct map struct identifier ignored_any
        }
    }
    pub fn from_tokens<'de, T: Deserialize<'de>>(toks: &[Tok]) -> Result<T, TErr> {
        let mut d = De { toks, pos: 0 };
        let v = T::deserialize(&mut d)?;
        if d.pos != toks.len() {
            return Result::Err(TErr("trailing tokens".into()));
        }
        Ok(v)
    }
}

#[cfg(feature = "feat")]
mod run {
    use super::tok::*;
    use glam::*;
    use harness::flat::*;
    use harness::lat::digits;
    use harness::rep::*;
    use serde::{de::DeserializeOwned, Deserialize, Serialize};
    use serde_json::json;
    use std::io::Write;
    use std::sync::Mutex;

    /// uniform lane view (vectors and quaternions through Flat, matrices / affines through cols arrays)
    pub trait Lanes: Sized + Copy + Send + Sync {
        type S: Sc;
        const N: usize;
        const NAME: &'static str;
        fn mk(l: &[Self::S]) -> Self;
        fn get(&self) -> Vec<Self::S>;
        fn zero_const() -> Self;
    }
    macro_rules! lanes_flat {
        ($($T:ident),*) => {$( impl Lanes for $T { type S = <$T as Flat>::S; const N: usize = <$T as Flat>::N; const NAME: &'static str = stringify!($T);
            fn mk(l: &[Self::S]) -> Self { <$T as Flat>::build(l) } fn get(&self) -> Vec<Self::S> { self.lanes() } fn zero_const() -> Self { <$T as Flat>::build(&vec![<Self::S as Sc>::zero(); <$T as Flat>::N]) } } )*};
    }
    lanes_flat!(Vec2, Vec3, Vec3A, Vec4, DVec2, DVec3, DVec4, Quat, DQuat, I8Vec2, I8Vec3, I8Vec4, U8Vec2, U8Vec3, U8Vec4, I16Vec2, I16Vec3, I16Vec4, U16Vec2, U16Vec3, U16Vec4,
        IVec2, IVec3, IVec4, UVec2, UVec3, UVec4, I64Vec2, I64Vec3, I64Vec4, U64Vec2, U64Vec3, U64Vec4, USizeVec2, USizeVec3, USizeVec4);
    macro_rules! lanes_cols {
        ($($T:ident, $S:ident, $N:expr);*) => {$( impl Lanes for $T { type S = $S; const N: usize = $N; const NAME: &'static str = stringify!($T);
            fn mk(l: &[$S]) -> Self { let mut a = [0.0 as $S; $N]; a.copy_from_slice(&l[..$N]); <$T>::from_cols_array(&a) } fn get(&self) -> Vec<$S> { self.to_cols_array().to_vec() }
            fn zero_const() -> Self { <$T>::ZERO } } )*};
    }
    lanes_cols!(Mat2, f32, 4; Mat3, f32, 9; Mat3A, f32, 9; Mat4, f32, 16; DMat2, f64, 4; DMat3, f64, 9; DMat4, f64, 16; Affine2, f32, 6; Affine3A, f32, 12; DAffine2, f64, 6; DAffine3, f64, 12);

    fn scalar_tok<S: Sc>(v: S) -> Tok {
        match S::NAME {
            "f32" => Tok::F32(v.bits() as u32),
            "f64" => Tok::F64(v.bits()),
            _ => {
                // integers: value as i128 (sign-extended from the lane width)
                let f = v.f();
                if f < 0.0 { Tok::I(v.bits() as i64 as i128 | if std::mem::size_of::<S>() < 8 { !((1i128 << (8 * std::mem::size_of::<S>())) - 1) } else { 0 }) } else { Tok::I(v.bits() as i128) }
            }
        }
    }
    fn lattice<S: Sc>() -> Vec<S> {
        let l = S::lattice(false);
        if l.len() <= 80 {
            return l;
        }
        let step = l.len() / 48;
        let mut v: Vec<S> = l.iter().enumerate().filter(|(i, _)| i % step == 0 || *i < 8 || i + 8 > l.len()).map(|(_, x)| *x).collect();
        for k in 0..6 {
            v.push(S::tag(k));
        }
        let mut seen = std::collections::HashSet::new();
        v.retain(|x| seen.insert(x.bits()));
        v
    }

    pub static STREAM: Mutex<Vec<String>> = Mutex::new(Vec::new());

    pub fn serde_checks<T: Lanes + Serialize + DeserializeOwned>(rep: &mut Report) {
        let tn = T::NAME;
        let lat = lattice::<T::S>();
        let l = lat.len() as u64;
        let n = T::N;
        rep.sweep(&format!("{tn}/serde token stream/lattice({l}) x lane-isolation"), l * (n as u64 + 1), |idx, acc| {
            let d = digits(idx, [l, n as u64 + 1]);
            let lanes: Vec<T::S> = (0..n).map(|i| if d[1] == n || d[1] == i { lat[d[0]] } else { <T::S as Sc>::fin(i + 1) }).collect();
            let v = T::mk(&lanes);
            let toks = match to_tokens(&v) {
                Ok(t) => t,
                Err(e) => {
                    acc.fail(&format!("{tn}::serialize"), format!("lanes={} error {}", show(&lanes), e));
                    return;
                }
            };
            let mut want = vec![Tok::TupleStruct(tn, n)];
            want.extend(lanes.iter().map(|x| scalar_tok(*x)));
            want.push(Tok::End);
            acc.eval(true, lanes[0].bits() ^ lanes[n - 1].bits().rotate_left(32));
            // the type name is part of the serde data model but not of the statement: compare the rest
            let shape_ok = matches!(&toks[0], Tok::TupleStruct(_, k) if *k == n) && toks[1..] == want[1..];
            if !shape_ok {
                acc.fail(&format!("{tn}::serialize"), format!("lanes={} tokens={:?} want={:?}", show(&lanes), toks, want));
                return;
            }
            match from_tokens::<T>(&toks) {
                Ok(back) => {
                    if !bits_eq(&back.get(), &lanes) {
                        acc.fail(&format!("{tn}::deserialize"), format!("lanes={} came back as {}", show(&lanes), show(&back.get())));
                    }
                }
                Err(e) => acc.fail(&format!("{tn}::deserialize"), format!("lanes={} error {}", show(&lanes), e)),
            }
        });
        // sequences of every length 0..N+2: only length N is accepted
        rep.sweep(&format!("{tn}/serde length rejection/lengths 0..N+2"), (n + 3) as u64, |idx, acc| {
            let len = idx as usize;
            let mut toks = vec![Tok::TupleStruct(tn, len)];
            toks.extend((0..len).map(|i| scalar_tok(<T::S as Sc>::fin(i + 1))));
            toks.push(Tok::End);
            let r = from_tokens::<T>(&toks);
            acc.eval(true, r.is_ok() as u64 | (idx << 1));
            if r.is_ok() != (len == n) {
                acc.fail(&format!("{tn}::deserialize(length)"), format!("a sequence of {len} elements was {} (element count is {n})", if r.is_ok() { "accepted" } else { "rejected" }));
            }
            // the same through serde_json text
            let text = format!("[{}]", (0..len).map(|i| format!("{}", i + 1)).collect::<Vec<_>>().join(","));
            let rj = serde_json::from_str::<T>(&text);
            if rj.is_ok() != (len == n) {
                acc.fail(&format!("{tn}::deserialize(json length)"), format!("json `{text}` was {}", if rj.is_ok() { "accepted" } else { "rejected" }));
            }
        });
        // serde_json text of finite values, recorded for the cross-build comparison
        let mut lines = vec![];
        for round in 0..6usize {
            let lanes: Vec<T::S> = (0..n).map(|i| if <T::S as Sc>::IS_FLOAT { <T::S as Sc>::of([0.1, -2.5, 1e-7, 3.0e10, 1.0 / 3.0, -0.0, 123456.789][(i + round) % 7] * (1.0 + round as f64)) } else { <T::S as Sc>::fin(i * 3 + round) }).collect();
            let v = T::mk(&lanes);
            match serde_json::to_string(&v) {
                Ok(s) => {
                    lines.push(format!("{tn}#{round}\t{s}"));
                    // the JSON text carrier may round by an ulp when parsing (serde_json without
                    // float_roundtrip), so only closeness is demanded here; exactness is decided
                    // through the token stream above
                    match serde_json::from_str::<T>(&s) {
                        Ok(b) if b.get().iter().zip(lanes.iter()).all(|(x, y)| (x.f() - y.f()).abs() <= 4.0 * 2.3e-16 * y.f().abs() || (x.f() - y.f()).abs() <= 4.0 * 1.2e-7 * y.f().abs() && <T::S as Sc>::NAME == "f32") => {}
                        other => rep.violation(&format!("{tn}/serde_json"), round as u64, &format!("{tn}::serde_json round trip"), format!("lanes={} json={s} came back as {:?}", show(&lanes), other.map(|b| show(&b.get())).map_err(|e| e.to_string()))),
                    }
                }
                Err(e) => rep.violation(&format!("{tn}/serde_json"), round as u64, &format!("{tn}::serde_json"), format!("{e}")),
            }
        }
        STREAM.lock().unwrap().extend(lines);
    }

    /// the mask types: N booleans in lane order, every one of the 2^N values
    macro_rules! serde_mask_checks {
        ($rep:ident, $(($T:ident, $N:expr)),*) => {$({
            let tn = stringify!($T);
            let n: usize = $N;
            $rep.sweep(&format!("{tn}/serde token stream/all 2^{n} masks"), 1u64 << n, |idx, acc| {
                let b: [bool; $N] = core::array::from_fn(|i| (idx >> i) & 1 == 1);
                let v = <$T>::from_array(b);
                acc.eval(idx != 0, idx);
                let toks = match to_tokens(&v) {
                    Ok(t) => t,
                    Err(e) => { acc.fail(&format!("{tn}::serialize"), format!("lanes={:?} error {}", b, e)); return; }
                };
                let mut want = vec![Tok::TupleStruct(tn, n)];
                want.extend(b.iter().map(|x| Tok::Bool(*x)));
                want.push(Tok::End);
                if !(matches!(&toks[0], Tok::TupleStruct(_, k) if *k == n) && toks[1..] == want[1..]) {
                    acc.fail(&format!("{tn}::serialize"), format!("lanes={:?} tokens={:?} want={:?}", b, toks, want));
                    return;
                }
                match from_tokens::<$T>(&toks) {
                    Ok(back) => {
                        let g: [bool; $N] = back.into();
                        if g != b { acc.fail(&format!("{tn}::deserialize"), format!("lanes={:?} came back as {:?}", b, g)); }
                    }
                    Err(e) => acc.fail(&format!("{tn}::deserialize"), format!("lanes={:?} error {}", b, e)),
                }
                // serde_json text: exact for booleans
                match serde_json::to_string(&v) {
                    Ok(s) => {
                        let wj = format!("[{}]", b.iter().map(|x| x.to_string()).collect::<Vec<_>>().join(","));
                        if s != wj { acc.fail(&format!("{tn}::serde_json"), format!("lanes={:?} json={s} want={wj}", b)); }
                        match serde_json::from_str::<$T>(&s) {
                            Ok(back) => { let g: [bool; $N] = back.into(); if g != b { acc.fail(&format!("{tn}::serde_json round trip"), format!("lanes={:?} json={s} came back as {:?}", b, g)); } }
                            Err(e) => acc.fail(&format!("{tn}::serde_json round trip"), format!("lanes={:?} json={s} error {e}", b)),
                        }
                    }
                    Err(e) => acc.fail(&format!("{tn}::serde_json"), format!("{e}")),
                }
            });
            // text recorded (in index order) for the cross-build comparison
            for idx in 0..(1u64 << n) {
                let b: [bool; $N] = core::array::from_fn(|i| (idx >> i) & 1 == 1);
                if tn.ends_with('A') { break; }
                if let Ok(s) = serde_json::to_string(&<$T>::from_array(b)) { STREAM.lock().unwrap().push(format!("{tn}#{idx}\t{s}")); }
            }
            $rep.sweep(&format!("{tn}/serde length rejection/lengths 0..N+2"), (n + 3) as u64, |idx, acc| {
                let len = idx as usize;
                let mut toks = vec![Tok::TupleStruct(tn, len)];
                toks.extend((0..len).map(|i| Tok::Bool(i % 2 == 0)));
                toks.push(Tok::End);
                let r = from_tokens::<$T>(&toks);
                acc.eval(true, r.is_ok() as u64 | (idx << 1));
                if r.is_ok() != (len == n) {
                    acc.fail(&format!("{tn}::deserialize(length)"), format!("a sequence of {len} elements was {} (element count is {n})", if r.is_ok() { "accepted" } else { "rejected" }));
                }
                let text = format!("[{}]", (0..len).map(|i| (i % 2 == 0).to_string()).collect::<Vec<_>>().join(","));
                let rj = serde_json::from_str::<$T>(&text);
                if rj.is_ok() != (len == n) {
                    acc.fail(&format!("{tn}::deserialize(json length)"), format!("json `{text}` was {}", if rj.is_ok() { "accepted" } else { "rejected" }));
                }
            });
        })*};
    }

    // ---------------------------------------------------------------- bytemuck
    pub struct Probe<T>(pub std::marker::PhantomData<T>);
    pub trait IsPodYes {
        fn is_pod(&self) -> bool;
    }
    impl<T: bytemuck::Pod> IsPodYes for Probe<T> {
        fn is_pod(&self) -> bool {
            true
        }
    }
    pub trait IsPodNo {
        fn is_pod(&self) -> bool;
    }
    impl<T> IsPodNo for &Probe<T> {
        fn is_pod(&self) -> bool {
            false
        }
    }
    // the same probe for NoUninit (what `bytes_of` needs): a type with padding bytes must not claim it
    pub trait IsNoUninitYes {
        fn is_no_uninit(&self) -> bool;
    }
    impl<T: bytemuck::NoUninit> IsNoUninitYes for Probe<T> {
        fn is_no_uninit(&self) -> bool {
            true
        }
    }
    pub trait IsNoUninitNo {
        fn is_no_uninit(&self) -> bool;
    }
    impl<T> IsNoUninitNo for &Probe<T> {
        fn is_no_uninit(&self) -> bool {
            false
        }
    }
    fn elem_bytes<S: Sc>(l: &[S]) -> Vec<u8> {
        let w = std::mem::size_of::<S>();
        l.iter().flat_map(|x| x.bits().to_ne_bytes()[..w].to_vec()).collect()
    }
    macro_rules! bytemuck_checks {
        ($rep:ident, $($T:ident),*) => {$({
            type T = $T;
            let tn = stringify!($T);
            let n = <T as Lanes>::N;
            let es = std::mem::size_of::<<T as Lanes>::S>();
            let padded = std::mem::size_of::<T>() != n * es;
            let is_pod = (&Probe::<T>(std::marker::PhantomData)).is_pod();
            let is_no_uninit = (&Probe::<T>(std::marker::PhantomData)).is_no_uninit();
            $rep.sweep(&format!("{tn}/bytemuck/tag rounds"), 6, |idx, acc| {
                let lanes: Vec<<T as Lanes>::S> = (0..n).map(|i| <<T as Lanes>::S as Sc>::tag(i + idx as usize * 7)).collect();
                let v = <T as Lanes>::mk(&lanes);
                acc.eval(true, idx);
                // `only types without padding are Pod`: Pod implies no padding (the converse is not claimed)
                if is_pod && padded {
                    acc.fail(&format!("{tn}::Pod"), format!("Pod = {is_pod} but size_of = {} vs {} element bytes (only types without padding may be Pod)", std::mem::size_of::<T>(), n * es));
                }
                // ... nor may it expose its bytes through NoUninit (`bytes_of` would hand out the padding)
                if is_no_uninit && padded {
                    acc.fail(&format!("{tn}::NoUninit"), format!("NoUninit is implemented although size_of = {} vs {} element bytes: the byte image would include padding", std::mem::size_of::<T>(), n * es));
                }
                // all-zero bytes are the zero value
                let z: T = bytemuck::Zeroable::zeroed();
                if !bits_eq(&z.get(), &<T as Lanes>::zero_const().get()) { acc.fail(&format!("{tn}::Zeroable"), format!("zeroed() = {}", show(&z.get()))); }
                // from bytes: the value's bytes are its elements in order (padding excluded)
                let mut raw = vec![0xEEu8; std::mem::size_of::<T>()];
                bytemuck_checks!(@image $T, raw, lanes, n, es);
                let back: T = bytemuck::pod_read_unaligned(&raw);
                if !bits_eq(&back.get(), &lanes) { acc.fail(&format!("{tn}::AnyBitPattern(from bytes)"), format!("bytes {:02x?} read back as {}", raw, show(&back.get()))); }
                bytemuck_checks!(@pod $T, acc, tn, v, lanes, n);
            });
        })*};
        (@image Vec3A, $raw:ident, $lanes:ident, $n:ident, $es:ident) => { $raw[..12].copy_from_slice(&elem_bytes(&$lanes)); };
        (@image Mat3A, $raw:ident, $lanes:ident, $n:ident, $es:ident) => { for c in 0..3 { $raw[c * 16..c * 16 + 12].copy_from_slice(&elem_bytes(&$lanes[c * 3..c * 3 + 3])); } };
        (@image Affine3A, $raw:ident, $lanes:ident, $n:ident, $es:ident) => { for c in 0..4 { $raw[c * 16..c * 16 + 12].copy_from_slice(&elem_bytes(&$lanes[c * 3..c * 3 + 3])); } };
        (@image $T:ident, $raw:ident, $lanes:ident, $n:ident, $es:ident) => { let eb = elem_bytes(&$lanes); $raw[..eb.len()].copy_from_slice(&eb); };
        (@pod Vec3A, $($r:tt)*) => {};
        (@pod Mat3A, $($r:tt)*) => {};
        (@pod Affine3A, $($r:tt)*) => {};
        (@pod Affine2, $($r:tt)*) => {};
        (@pod $T:ident, $acc:ident, $tn:ident, $v:ident, $lanes:ident, $n:ident) => {{
            // Pod types: bytes_of = concatenated native-endian element bytes; cast there and back is the identity
            let b = bytemuck::bytes_of(&$v);
            if b != &elem_bytes(&$lanes)[..] { $acc.fail(&format!("{}::bytes_of", $tn), format!("lanes={} bytes={:02x?}", show(&$lanes), b)); }
            let arr: [<$T as Lanes>::S; <$T as Lanes>::N] = bytemuck::cast($v);
            let back: $T = bytemuck::cast(arr);
            if !bits_eq(&arr, &$lanes) || !bits_eq(&back.get(), &$lanes) { $acc.fail(&format!("{}::cast", $tn), format!("lanes={} cast to array {} and back {}", show(&$lanes), show(&arr), show(&back.get()))); }
            let sl = [$v, $v];
            let flat: &[<$T as Lanes>::S] = bytemuck::cast_slice(&sl);
            if !bits_eq(&flat[..$n], &$lanes) || !bits_eq(&flat[$n..], &$lanes) { $acc.fail(&format!("{}::cast_slice", $tn), format!("lanes={} got {}", show(&$lanes), show(flat))); }
        }};
    }

    // ---------------------------------------------------------------- rkyv
    macro_rules! rkyv_checks {
        ($rep:ident, $($T:ident),*) => {$({
            type T = $T;
            let tn = stringify!($T);
            let n = <T as Lanes>::N;
            $rep.sweep(&format!("{tn}/rkyv/tag rounds"), 6, |idx, acc| {
                let lanes: Vec<<T as Lanes>::S> = (0..n).map(|i| <<T as Lanes>::S as Sc>::tag(i + idx as usize * 7)).collect();
                let v = <T as Lanes>::mk(&lanes);
                acc.eval(true, idx);
                let bytes = match rkyv::to_bytes::<rkyv::rancor::Error>(&v) { Ok(b) => b, Err(e) => { acc.fail(&format!("{tn}::rkyv::to_bytes"), format!("{e}")); return; } };
                // byte image: the elements in order (per-column padding of the 16-byte types excluded)
                let mut want = vec![0u8; std::mem::size_of::<T>()];
                let mut mask = vec![0u8; std::mem::size_of::<T>()];
                rkyv_checks!(@image $T, want, mask, lanes);
                let got: Vec<u8> = bytes.iter().zip(mask.iter()).map(|(b, m)| b & m).collect();
                if bytes.len() != want.len() || got != want { acc.fail(&format!("{tn}::rkyv byte image"), format!("lanes={} bytes={:02x?}", show(&lanes), &bytes[..])); }
                let archived = unsafe { rkyv::access_unchecked::<T>(&bytes) };
                if !bits_eq(&archived.get(), &lanes) { acc.fail(&format!("{tn}::rkyv::access"), format!("lanes={} archived={}", show(&lanes), show(&archived.get()))); }
                match rkyv::deserialize::<T, rkyv::rancor::Error>(archived) {
                    Ok(b) => if !bits_eq(&b.get(), &lanes) { acc.fail(&format!("{tn}::rkyv::deserialize"), format!("lanes={} back={}", show(&lanes), show(&b.get()))); },
                    Err(e) => acc.fail(&format!("{tn}::rkyv::deserialize"), format!("{e}")),
                }
            });
        })*};
        (@image Vec3A, $want:ident, $mask:ident, $lanes:ident) => { $want[..12].copy_from_slice(&elem_bytes(&$lanes)); for m in &mut $mask[..12] { *m = 0xFF; } };
        (@image Mat3A, $want:ident, $mask:ident, $lanes:ident) => { for c in 0..3 { $want[c * 16..c * 16 + 12].copy_from_slice(&elem_bytes(&$lanes[c * 3..c * 3 + 3])); for m in &mut $mask[c * 16..c * 16 + 12] { *m = 0xFF; } } };
        (@image Affine3A, $want:ident, $mask:ident, $lanes:ident) => { for c in 0..4 { $want[c * 16..c * 16 + 12].copy_from_slice(&elem_bytes(&$lanes[c * 3..c * 3 + 3])); for m in &mut $mask[c * 16..c * 16 + 12] { *m = 0xFF; } } };
        (@image $T:ident, $want:ident, $mask:ident, $lanes:ident) => { let eb = elem_bytes(&$lanes); $want[..eb.len()].copy_from_slice(&eb); for m in &mut $mask[..eb.len()] { *m = 0xFF; } };
    }

    // ---------------------------------------------------------------- mint
    macro_rules! mint_vec {
        ($rep:ident, $(($T:ident, $S:ident, $MV:ident, $MP:ident, [$($f:ident),*])),*) => {$({
            let tn = stringify!($T);
            $rep.sweep(&format!("{tn}/mint/tag rounds"), 6, |idx, acc| {
                let n = <$T as Lanes>::N;
                let lanes: Vec<$S> = (0..n).map(|i| <$S as Sc>::tag(i + idx as usize * 7)).collect();
                let v = <$T as Lanes>::mk(&lanes);
                acc.eval(true, idx);
                let mv: mint::$MV<$S> = v.into();
                let got = vec![$(mv.$f),*];
                let back: $T = mv.into();
                if !bits_eq(&got, &lanes) || !bits_eq(&back.get(), &lanes) { acc.fail(&format!("{tn}::mint::{}", stringify!($MV)), format!("lanes={} mint={} back={}", show(&lanes), show(&got), show(&back.get()))); }
                let mp: mint::$MP<$S> = v.into();
                let got = vec![$(mp.$f),*];
                let back: $T = mp.into();
                if !bits_eq(&got, &lanes) || !bits_eq(&back.get(), &lanes) { acc.fail(&format!("{tn}::mint::{}", stringify!($MP)), format!("lanes={} mint={} back={}", show(&lanes), show(&got), show(&back.get()))); }
            });
        })*};
    }
    macro_rules! mint_mat {
        ($rep:ident, $(($T:ident, $S:ident, $N:expr, $CM:ident, $RM:ident, [$($f:ident),*])),*) => {$({
            let tn = stringify!($T);
            $rep.sweep(&format!("{tn}/mint/tag rounds"), 6, |idx, acc| {
                const N: usize = $N;
                let lanes: Vec<$S> = (0..N * N).map(|i| <$S as Sc>::tag(i + idx as usize * 17)).collect();
                let m = <$T as Lanes>::mk(&lanes);
                acc.eval(true, idx);
                // column-major mint matrix carries the same columns
                let cm: mint::$CM<$S> = m.into();
                let cols: Vec<[$S; N]> = vec![$(cm.$f.into()),*];
                let got: Vec<$S> = cols.iter().flatten().copied().collect();
                let back: $T = cm.into();
                if !bits_eq(&got, &lanes) || !bits_eq(&back.get(), &lanes) { acc.fail(&format!("{tn}::mint::{}", stringify!($CM)), format!("lanes={} mint columns={} back={}", show(&lanes), show(&got), show(&back.get()))); }
                // row-major: entry (r, c) preserved => row r of the mint matrix is (m[r][0], m[r][1], ...)
                let rm: mint::$RM<$S> = m.into();
                let rows: Vec<[$S; N]> = vec![$(rm.$f.into()),*];
                let mut ok = true;
                for r in 0..N { for c in 0..N { ok &= rows[r][c].bits() == lanes[c * N + r].bits(); } }
                let back: $T = rm.into();
                if !ok || !bits_eq(&back.get(), &lanes) { acc.fail(&format!("{tn}::mint::{}", stringify!($RM)), format!("lanes={} mint rows={:?} back={}", show(&lanes), rows.iter().map(|r| show(r)).collect::<Vec<_>>(), show(&back.get()))); }
            });
        })*};
    }

    pub fn main() {
        let mut rep = Report::new("C19", "exploration");
        silence_panics();
        rep.rule("cases = (type, interop path, lane tuple): serde through an exact token stream on lattice values by lane isolation (token sequence = TupleStruct(N) + N scalars in lane / column-major order; deserialisation bit-identical), element sequences of every length 0..N+2 (only N accepted; also through serde_json), serde_json text of finite values recorded for the byte-for-byte cross-build comparison; bytemuck: bytes_of / from-bytes image = elements in order in native endianness (padding excluded), zeroed() = ZERO, cast round trips, Pod iff no padding; rkyv: to_bytes image, access, deserialize; mint: to-mint-and-back identity, column-major same columns, row-major entry (r,c) preserved; all on tagged lanes");
        macro_rules! all_serde { ($($T:ident),*) => { $( serde_checks::<$T>(&mut rep); )* }; }
        all_serde!(Vec2, Vec3, Vec3A, Vec4, DVec2, DVec3, DVec4, Quat, DQuat, Mat2, Mat3, Mat3A, Mat4, DMat2, DMat3, DMat4, Affine2, Affine3A, DAffine2, DAffine3);
        all_serde!(I8Vec2, I8Vec3, I8Vec4, U8Vec2, U8Vec3, U8Vec4, I16Vec2, I16Vec3, I16Vec4, U16Vec2, U16Vec3, U16Vec4, IVec2, IVec3, IVec4, UVec2, UVec3, UVec4);
        all_serde!(I64Vec2, I64Vec3, I64Vec4, U64Vec2, U64Vec3, U64Vec4, USizeVec2, USizeVec3, USizeVec4);
        // the EulerRot enum: every variant announces its declaration index and its name, and comes back
        // from each of the three ways a format may identify a variant
        rep.sweep("EulerRot/serde unit variants/24 variants x 3 identification modes", 24 * 3, |idx, acc| {
            use harness::shapes::Shapes;
            let all = <EulerRot as Shapes>::shapes();
            let (v, mode) = (all[(idx % 24) as usize], (idx / 24) as u8);
            acc.eval(true, idx);
            let name: &'static str = Box::leak(format!("{:?}", v).into_boxed_str());
            match to_tokens(&v) {
                Ok(t) => {
                    if t != vec![Tok::Variant(v as u32, name)] { acc.fail("EulerRot::serialize", format!("{:?}: tokens {:?}, want Variant({}, {name})", v, t, v as u32)); }
                }
                Err(e) => acc.fail("EulerRot::serialize", format!("{:?}: {e}", v)),
            }
            match EulerRot::deserialize(VarDe { index: v as u32, name, mode }) {
                Ok(b) => if b != v { acc.fail("EulerRot::deserialize", format!("{:?} identified by {} came back as {:?}", v, ["index", "name", "name bytes"][mode as usize], b)); },
                Err(e) => acc.fail("EulerRot::deserialize", format!("{:?} identified by {}: {e}", v, ["index", "name", "name bytes"][mode as usize])),
            }
            if mode == 0 {
                match serde_json::to_string(&v) {
                    Ok(s) => {
                        if s != format!("\"{name}\"") { acc.fail("EulerRot::serde_json", format!("{:?}: json {s}", v)); }
                        match serde_json::from_str::<EulerRot>(&s) { Ok(b) if b == v => {}, other => acc.fail("EulerRot::serde_json round trip", format!("{:?}: json {s} came back as {:?}", v, other.map_err(|e| e.to_string()))) }
                    }
                    Err(e) => acc.fail("EulerRot::serde_json", format!("{e}")),
                }
            }
        });
        // out-of-range index / unknown name are rejected
        rep.sweep("EulerRot/serde unknown variants rejected", 3, |idx, acc| {
            acc.eval(true, idx);
            if EulerRot::deserialize(VarDe { index: 24, name: "XYZW", mode: idx as u8 }).is_ok() { acc.fail("EulerRot::deserialize(unknown)", format!("variant 24 / `XYZW` identified by mode {idx} was accepted")); }
        });
        serde_mask_checks!(rep, (BVec2, 2), (BVec3, 3), (BVec4, 4));
        // the scalar-math build defines its own BVec3A / BVec4A without serde impls (a compile-time
        // difference, outside what an execution can show); the SIMD types are checked where they exist,
        // their JSON text against the literal expected text rather than through the cross-build stream
        #[cfg(not(feature = "scalar"))]
        serde_mask_checks!(rep, (BVec3A, 3), (BVec4A, 4));
        bytemuck_checks!(rep, Vec2, Vec3, Vec3A, Vec4, DVec2, DVec3, DVec4, Quat, DQuat, Mat2, Mat3, Mat3A, Mat4, DMat2, DMat3, DMat4, Affine2, Affine3A, DAffine2, DAffine3,
            I8Vec2, I8Vec3, I8Vec4, U8Vec2, U8Vec3, U8Vec4, I16Vec2, I16Vec3, I16Vec4, U16Vec2, U16Vec3, U16Vec4, IVec2, IVec3, IVec4, UVec2, UVec3, UVec4,
            I64Vec2, I64Vec3, I64Vec4, U64Vec2, U64Vec3, U64Vec4);
        rkyv_checks!(rep, Vec2, Vec3, Vec3A, Vec4, DVec2, DVec3, DVec4, Quat, DQuat, Mat2, Mat3, Mat3A, Mat4, DMat2, DMat3, DMat4, Affine2, Affine3A, DAffine2, DAffine3,
            I8Vec2, I8Vec3, I8Vec4, U8Vec2, U8Vec3, U8Vec4, I16Vec2, I16Vec3, I16Vec4, U16Vec2, U16Vec3, U16Vec4, IVec2, IVec3, IVec4, UVec2, UVec3, UVec4,
            I64Vec2, I64Vec3, I64Vec4, U64Vec2, U64Vec3, U64Vec4);
        mint_vec!(rep, (Vec2, f32, Vector2, Point2, [x, y]), (Vec3, f32, Vector3, Point3, [x, y, z]), (Vec3A, f32, Vector3, Point3, [x, y, z]), (DVec2, f64, Vector2, Point2, [x, y]), (DVec3, f64, Vector3, Point3, [x, y, z]),
            (IVec2, i32, Vector2, Point2, [x, y]), (IVec3, i32, Vector3, Point3, [x, y, z]), (UVec2, u32, Vector2, Point2, [x, y]), (UVec3, u32, Vector3, Point3, [x, y, z]),
            (I16Vec3, i16, Vector3, Point3, [x, y, z]), (U8Vec2, u8, Vector2, Point2, [x, y]), (I64Vec3, i64, Vector3, Point3, [x, y, z]), (USizeVec2, usize, Vector2, Point2, [x, y]));
        mint_mat!(rep, (Mat2, f32, 2, ColumnMatrix2, RowMatrix2, [x, y]), (Mat3, f32, 3, ColumnMatrix3, RowMatrix3, [x, y, z]), (Mat3A, f32, 3, ColumnMatrix3, RowMatrix3, [x, y, z]), (Mat4, f32, 4, ColumnMatrix4, RowMatrix4, [x, y, z, w]),
            (DMat2, f64, 2, ColumnMatrix2, RowMatrix2, [x, y]), (DMat3, f64, 3, ColumnMatrix3, RowMatrix3, [x, y, z]), (DMat4, f64, 4, ColumnMatrix4, RowMatrix4, [x, y, z, w]));
        // 4-lane vectors / quaternions
        rep.sweep("Vec4,DVec4,Quat,DQuat/mint/tag rounds", 6, |idx, acc| {
            acc.eval(true, idx);
            let l: Vec<f32> = (0..4).map(|i| f32::tag(i + idx as usize * 7)).collect();
            let v = Vec4::new(l[0], l[1], l[2], l[3]);
            let mv: mint::Vector4<f32> = v.into();
            let back: Vec4 = mv.into();
            if !bits_eq(&[mv.x, mv.y, mv.z, mv.w], &l) || !bits_eq(&back.to_array(), &l) { acc.fail("Vec4::mint::Vector4", format!("lanes={}", show(&l))); }
            let q = Quat::from_xyzw(l[0], l[1], l[2], l[3]);
            let mq: mint::Quaternion<f32> = q.into();
            let back: Quat = mq.into();
            if !bits_eq(&[mq.v.x, mq.v.y, mq.v.z, mq.s], &l) || !bits_eq(&back.to_array(), &l) { acc.fail("Quat::mint::Quaternion", format!("lanes={} mint=({:?}, {:?})", show(&l), mq.v, mq.s)); }
            let ld: Vec<f64> = (0..4).map(|i| f64::tag(i + idx as usize * 7)).collect();
            let dq = DQuat::from_xyzw(ld[0], ld[1], ld[2], ld[3]);
            let mq: mint::Quaternion<f64> = dq.into();
            let back: DQuat = mq.into();
            if !bits_eq(&[mq.v.x, mq.v.y, mq.v.z, mq.s], &ld) || !bits_eq(&back.to_array(), &ld) { acc.fail("DQuat::mint::Quaternion", format!("lanes={}", show(&ld))); }
        });
        // stream for the cross-build comparison
        let path = format!("{}/work/C19.{}.{}.stream", VERIF_DIR, rep.args.cfg, rep.args.tier);
        let lines = STREAM.lock().unwrap();
        let mut f = std::fs::File::create(&path).expect("stream file");
        for l in lines.iter() {
            writeln!(f, "{l}").unwrap();
        }
        rep.extra.insert("json_stream_lines".into(), json!(lines.len()));
        drop(lines);
        rep.sample(json!({"type": "Mat3A", "serde tokens": "TupleStruct(9) F32 x 9 in column-major order End", "values": "lattice value in lane k, others 1.25*i+0.5"}));
        rep.sample(json!({"type": "Vec3A", "bytemuck": "16-byte image, first 12 bytes = x,y,z native endian; not Pod (padding)", "rkyv": "to_bytes image masked to the element bytes"}));
        std::process::exit(rep.finish());
    }
}

#[cfg(feature = "feat")]
fn main() {
    run::main();
}
