//! C11 — view and projection matrices map the frustum as documented for each handedness (E1).
//! The reference is built from the *documented mapping* (which plane goes to which depth, clip
//! w = -z / +z, fov/aspect scaling; eye -> origin, dir -> -Z / +Z, up into the +Y half plane),
//! not from glam's formulas.
#![allow(clippy::all)]
use glam::*;
use harness::fam::*;
use harness::lat::digits;
use harness::refm::*;
use harness::rep::*;
use serde_json::json;
use std::f64::consts::PI;

/// projective reference from the documented mapping.
/// rh: camera looks down -Z, clip w = -z; lh: looks down +Z, clip w = +z.
/// depth(near plane) = dn, depth(far plane or infinity) = df.
fn persp_ref(rh: bool, fov: f64, aspect: f64, near: f64, far: Option<f64>, dn: f64, df: f64) -> Mx {
    let h = 1.0 / (fov * 0.5).tan();
    let w = h / aspect;
    let inv_far = far.map(|f| 1.0 / f).unwrap_or(0.0);
    // z_ndc = sa + b / d, d = distance along the view direction; conditions at d = near and d = far
    let b = (dn - df) / (1.0 / near - inv_far);
    let sa = dn - b / near;
    let mut m = Mx::zero(4);
    m.set(0, 0, w);
    m.set(1, 1, h);
    if rh {
        // d = -z: z_clip = sa*d + b = -sa*z + b ; w_clip = -z
        m.set(2, 2, -sa);
        m.set(2, 3, b);
        m.set(3, 2, -1.0);
    } else {
        m.set(2, 2, sa);
        m.set(2, 3, b);
        m.set(3, 2, 1.0);
    }
    m
}
fn ortho_ref(rh: bool, l: f64, r: f64, b: f64, t: f64, n: f64, f: f64, dn: f64, df: f64) -> Mx {
    let mut m = Mx::ident(4);
    m.set(0, 0, 2.0 / (r - l));
    m.set(0, 3, -(r + l) / (r - l));
    m.set(1, 1, 2.0 / (t - b));
    m.set(1, 3, -(t + b) / (t - b));
    // depth = dn + (d - n) (df - dn) / (f - n), d = -z (rh) or z (lh)
    let k = (df - dn) / (f - n);
    m.set(2, 2, if rh { -k } else { k });
    m.set(2, 3, dn - n * k);
    m
}
/// rigid view transform from the documented mapping: eye -> 0, dir -> -Z (rh) / +Z (lh), up -> +Y half plane
fn view_ref(rh: bool, eye: &[f64], dir: &[f64], up: &[f64]) -> Mx {
    let f = normalize(dir);
    let upo = sub(up, &scale(&f, dot(up, &f)));
    let y = normalize(&upo);
    let z: Vec<f64> = if rh { scale(&f, -1.0) } else { f.clone() };
    let x = cross(&y, &z).to_vec();
    let mut m = Mx::ident(4);
    for c in 0..3 {
        m.set(0, c, x[c]);
        m.set(1, c, y[c]);
        m.set(2, c, z[c]);
    }
    m.set(0, 3, -dot(&x, eye));
    m.set(1, 3, -dot(&y, eye));
    m.set(2, 3, -dot(&z, eye));
    m
}

fn cols4<T: AsCols>(m: &T) -> Mx {
    m.hom()
}
trait AsCols {
    fn hom(&self) -> Mx;
}
macro_rules! ascols_m4 {
    ($($T:ident),*) => {$( impl AsCols for $T { fn hom(&self) -> Mx { Mx::from_cols(4, &self.to_cols_array().iter().map(|x| *x as f64).collect::<Vec<_>>()) } } )*};
}
ascols_m4!(Mat4, DMat4);
macro_rules! ascols_a3 {
    ($($T:ident),*) => {$( impl AsCols for $T { fn hom(&self) -> Mx { let c: Vec<f64> = self.to_cols_array().iter().map(|x| *x as f64).collect(); let mut m = Mx::ident(4); for col in 0..4 { for r in 0..3 { m.set(r, col, c[col * 3 + r]); } } m } } )*};
}
ascols_a3!(Affine3A, DAffine3);
macro_rules! ascols_m3 {
    ($($T:ident),*) => {$( impl AsCols for $T { fn hom(&self) -> Mx { Mx::from_cols(3, &self.to_cols_array().iter().map(|x| *x as f64).collect::<Vec<_>>()).embed(4) } } )*};
}
ascols_m3!(Mat3, Mat3A, DMat3);
macro_rules! ascols_q {
    ($($T:ident),*) => {$( impl AsCols for $T { fn hom(&self) -> Mx { let a = self.to_array(); qmat(&qnormalize(&[a[0] as f64, a[1] as f64, a[2] as f64, a[3] as f64])).embed(4) } } )*};
}
ascols_q!(Quat, DQuat);

macro_rules! views {
    ($rep:ident, $S:ident, $eps:expr, $V3:ident, [$($F:ident),*], [$($R:ident),*]) => {{
        let eps: f64 = $eps;
        let dirs = unit_dirs(2);
        let nd = if $rep.thorough() { dirs.len() } else { 32 };
        let sdirs: Vec<[f64; 3]> = dirs.iter().step_by((dirs.len() / nd).max(1)).copied().collect();
        let ns = sdirs.len() as u64;
        let subr = &sdirs;
        let eyes: Vec<[f64; 3]> = { let g = [-7.5, 0.0, 3.0]; let mut v = vec![]; for x in g { for y in g { for z in g { v.push([x, y * 0.5 + 0.25, z - 1.0]); } } } v };
        let eyesr = &eyes;
        // up hints: every direction of the set, plus four hints nearly parallel / anti-parallel to the
        // view direction but still inside the stated domain (|dir x up| = sin of 1.5e-3, 3e-3, 1e-2, pi - 2e-3)
        let nu = ns + 4;
        $rep.sweep(&format!("{}/look_to,look_at/27 eyes x {ns} directions x {nu} up hints x 2 handedness", stringify!($S)), 27 * ns * nu * 2, |idx, acc| {
            let d = digits(idx, [27, ns, nu, 2]);
            let (e, dr) = (eyesr[d[0]], subr[d[1]]);
            let upv: [f64; 3] = if d[2] < ns as usize { subr[d[2]] } else {
                let th = [1.5e-3, 3e-3, 1e-2, std::f64::consts::PI - 2e-3][d[2] - ns as usize];
                let w = if dr[0].abs() < 0.9 { [1.0, 0.0, 0.0] } else { [0.0, 1.0, 0.0] };
                let p = normalize(&cross(&dr, &w));
                let (sn, cs) = th.sin_cos();
                [dr[0] * cs + p[0] * sn, dr[1] * cs + p[1] * sn, dr[2] * cs + p[2] * sn]
            };
            let rh = d[3] == 0;
            let eye = <$V3>::new(e[0] as $S, e[1] as $S, e[2] as $S);
            let dir = <$V3>::new(dr[0] as $S, dr[1] as $S, dr[2] as $S);
            let up = <$V3>::new(upv[0] as $S, upv[1] as $S, upv[2] as $S);
            let (es, ds, us) = ([eye.x as f64, eye.y as f64, eye.z as f64], [dir.x as f64, dir.y as f64, dir.z as f64], [up.x as f64, up.y as f64, up.z as f64]);
            let sn = norm(&cross(&ds, &us));
            if sn < 1e-3 {
                return; // degenerate geometry is outside the statement
            }
            let want = view_ref(rh, &es, &ds, &us);
            let ctx = || format!("eye={:?} dir={:?} up={:?} rh={}", es, ds, us, rh);
            let k = 16.0 * eps / sn;
            let en = norm(&es);
            let mut bound = vec![k; 16];
            for r in 0..3 { bound[12 + r] = k * (en + 1.0) * 2.0; }
            bound[3] = 0.0; bound[7] = 0.0; bound[11] = 0.0; bound[15] = 0.0;
            // a far-away focal point along dir for the look_at forms
            // focal points along dir at several distances, among them values within 1e-4 of 1 (where a
            // "nearly unit already" shortcut for center - eye would bite)
            let fdist = [2.5, 1.00005, 0.9999, 1e-2, 300.0][(idx % 5) as usize];
            let center = eye + dir * (fdist as $S);
            let cs = [center.x as f64, center.y as f64, center.z as f64];
            let want_at = view_ref(rh, &es, &sub(&cs, &es), &us);
            $(
                let m = if rh { <$F>::look_to_rh(eye, dir, up) } else { <$F>::look_to_lh(eye, dir, up) };
                acc.eval(true, cols4(&m).a[1].to_bits());
                env_vec(acc, &format!("{}::look_to_{}", stringify!($F), if rh { "rh" } else { "lh" }), cols4(&m).cols(), want.cols(), &bound, &ctx);
                let m = if rh { <$F>::look_at_rh(eye, center, up) } else { <$F>::look_at_lh(eye, center, up) };
                let bat: Vec<f64> = bound.iter().map(|b| b * 4.0).collect();
                env_vec(acc, &format!("{}::look_at_{}", stringify!($F), if rh { "rh" } else { "lh" }), cols4(&m).cols(), want_at.cols(), &bat, &ctx);
            )*
            // rotation-only forms
            let mut wr = want; wr.set(0, 3, 0.0); wr.set(1, 3, 0.0); wr.set(2, 3, 0.0);
            let mut wra = want_at; wra.set(0, 3, 0.0); wra.set(1, 3, 0.0); wra.set(2, 3, 0.0);
            let br: Vec<f64> = (0..16).map(|i| if i < 12 && i % 4 != 3 { k * 2.0 } else { 0.0 }).collect();
            $(
                let m = if rh { <$R>::look_to_rh(dir, up) } else { <$R>::look_to_lh(dir, up) };
                acc.eval(true, cols4(&m).a[1].to_bits());
                env_vec(acc, &format!("{}::look_to_{}", stringify!($R), if rh { "rh" } else { "lh" }), cols4(&m).cols(), wr.cols(), &br, &ctx);
                let m = if rh { <$R>::look_at_rh(eye, center, up) } else { <$R>::look_at_lh(eye, center, up) };
                let bra: Vec<f64> = br.iter().map(|b| b * 4.0).collect();
                env_vec(acc, &format!("{}::look_at_{}", stringify!($R), if rh { "rh" } else { "lh" }), cols4(&m).cols(), wra.cols(), &bra, &ctx);
            )*
        });
    }};
}

macro_rules! projections {
    // the Vec3A forms (f32 Mat4 only) must agree bit-for-bit with the Vec3 forms
    (@p3a Mat4, $acc:ident, $tn:ident, $m:expr, $p:expr, $want:expr, $ctx:ident) => {{
        let pa = <Vec3A as harness::flat::Flat>::build(&$p.to_array());
        let g = $m.project_point3a(pa);
        let w: [f64; 3] = $want;
        if [g.x as f64, g.y as f64, g.z as f64] != w && !(g.is_nan() && w.iter().any(|x| x.is_nan())) {
            $acc.fail(&format!("{}::project_point3a", $tn), format!("{} p={:?} Vec3A form {:?} differs from the Vec3 form {:?}", $ctx(), $p, g, w));
        }
    }};
    (@p3a $M:ident, $acc:ident, $tn:ident, $m:expr, $p:expr, $want:expr, $ctx:ident) => {};
    ($rep:ident, $M:ident, $S:ident, $eps:expr, $V3:ident) => {{
        let eps: f64 = $eps;
        let tn = stringify!($M);
        let nf: u64 = if $rep.thorough() { 17 } else { 7 };
        let aspects = [1e-2, 0.5, 1.0, 16.0 / 9.0, 1e2];
        let nears = [1e-3, 0.1, 1.0];
        // the far/near axis keeps every decade-scale regime a shortcut could single out (round 6: a change acting only above 1e5)
        let ratios = [1.0 + 1.0 / 1024.0, 2.0, 10.0, 1e3, 1e4, 3e5, 1e6];
        // probe points in normalised frustum coordinates (u, v, depth fraction)
        $rep.sweep(&format!("{tn}/perspective_*/{nf} fov x 5 aspect x 3 near x 7 far ratios x 7 variants"), nf * 5 * 3 * 7 * 7, |idx, acc| {
            let d = digits(idx, [nf, 5, 3, 7, 7]);
            let fov = (1e-2 + (PI - 2e-2) * d[0] as f64 / (nf - 1) as f64) as $S;
            let aspect = aspects[d[1]] as $S;
            let near = nears[d[2]] as $S;
            let far = (nears[d[2]] * ratios[d[3]]) as $S;
            let (fv, av, nv, fav) = (fov as f64, aspect as f64, near as f64, far as f64);
            let (name, m, want, cond): (&str, $M, Mx, f64) = match d[4] {
                0 => ("perspective_rh_gl", <$M>::perspective_rh_gl(fov, aspect, near, far), persp_ref(true, fv, av, nv, Some(fav), -1.0, 1.0), fav / (fav - nv)),
                1 => ("perspective_lh", <$M>::perspective_lh(fov, aspect, near, far), persp_ref(false, fv, av, nv, Some(fav), 0.0, 1.0), fav / (fav - nv)),
                2 => ("perspective_rh", <$M>::perspective_rh(fov, aspect, near, far), persp_ref(true, fv, av, nv, Some(fav), 0.0, 1.0), fav / (fav - nv)),
                3 => ("perspective_infinite_lh", <$M>::perspective_infinite_lh(fov, aspect, near), persp_ref(false, fv, av, nv, None, 0.0, 1.0), 1.0),
                4 => ("perspective_infinite_reverse_lh", <$M>::perspective_infinite_reverse_lh(fov, aspect, near), persp_ref(false, fv, av, nv, None, 1.0, 0.0), 1.0),
                5 => ("perspective_infinite_rh", <$M>::perspective_infinite_rh(fov, aspect, near), persp_ref(true, fv, av, nv, None, 0.0, 1.0), 1.0),
                _ => ("perspective_infinite_reverse_rh", <$M>::perspective_infinite_reverse_rh(fov, aspect, near), persp_ref(true, fv, av, nv, None, 1.0, 0.0), 1.0),
            };
            let g = cols4(&m);
            let ctx = || format!("{name}(fov={:e}, aspect={:e}, near={:e}, far={:e})", fv, av, nv, fav);
            // tan(fov/2) is ill-conditioned towards pi: relative error eps * (fov/2) / (sin cos)
            let tcond = 1.0 + (fv * 0.5) / ((fv * 0.5).sin() * (fv * 0.5).cos()).abs();
            let mut bound = vec![0.0; 16];
            bound[0] = 8.0 * eps * tcond * want.a[0].abs();
            bound[5] = 8.0 * eps * tcond * want.a[5].abs();
            bound[10] = 8.0 * eps * cond * want.a[10].abs().max(1.0);
            bound[14] = 8.0 * eps * cond * want.a[14].abs().max(nv);
            acc.eval(true, g.a[10].to_bits() ^ g.a[0].to_bits().rotate_left(9));
            env_vec(acc, &format!("{tn}::{name}"), g.cols(), want.cols(), &bound, &ctx);
            // project_point3 against the stored matrix evaluated in f64: frustum corners and interior
            let rh = g.at(3, 2) < 0.0;
            let tan_half = (fv * 0.5).tan();
            for (pu, pv, pd) in [(1.0, 1.0, 0.0), (-1.0, 1.0, 0.0), (1.0, -1.0, 1.0), (-1.0, -1.0, 1.0), (0.0, 0.0, 0.0), (0.0, 0.0, 1.0), (0.3, -0.7, 0.5), (-0.9, 0.2, 0.25), (0.5, 0.5, 0.9)] {
                let far_d = if d[4] >= 3 { nv * 1e3 } else { fav };
                let dist = nv + (far_d - nv) * pd;
                let p = [pu * dist * tan_half * av, pv * dist * tan_half, if rh { -dist } else { dist }];
                let pv3 = <$V3>::new(p[0] as $S, p[1] as $S, p[2] as $S);
                let ps = [pv3.x as f64, pv3.y as f64, pv3.z as f64, 1.0];
                let clip = g.mulv(&ps);
                let sc = g.mulv_abs(&ps);
                let wantp = [clip[0] / clip[3], clip[1] / clip[3], clip[2] / clip[3]];
                let got = m.project_point3(pv3);
                let gp = [got.x as f64, got.y as f64, got.z as f64];
                projections!(@p3a $M, acc, tn, m, pv3, gp, ctx);
                // a projection * view product has w_axis.w != 0: the divide must use the full w
                {
                    let view = <$M>::look_at_rh(<$V3>::new(1.0, 2.0, 3.0), <$V3>::new(0.0, 0.5, -1.0), <$V3>::Y);
                    let pvw = m * view;
                    let gw = cols4(&pvw);
                    let cl = gw.mulv(&ps);
                    let scw = gw.mulv_abs(&ps);
                    if cl[3].abs() > 1e-3 * scw[3] {
                        let w3 = [cl[0] / cl[3], cl[1] / cl[3], cl[2] / cl[3]];
                        let g3 = pvw.project_point3(pv3);
                        let bw: Vec<f64> = (0..3).map(|i| 12.0 * eps * (scw[i] / cl[3].abs() + w3[i].abs() * scw[3] / cl[3].abs())).collect();
                        env_vec(acc, &format!("{tn}::project_point3(projection*view)"), &[g3.x as f64, g3.y as f64, g3.z as f64], &w3, &bw, &|| format!("{} p={:?}", ctx(), ps));
                        projections!(@p3a $M, acc, tn, pvw, pv3, [g3.x as f64, g3.y as f64, g3.z as f64], ctx);
                    }
                }
                let bp: Vec<f64> = (0..3).map(|i| 12.0 * eps * (sc[i] / clip[3].abs() + wantp[i].abs() * sc[3] / clip[3].abs())).collect();
                acc.eval(true, gp[0].to_bits() ^ gp[2].to_bits().rotate_left(9));
                env_vec(acc, &format!("{tn}::project_point3"), &gp, &wantp, &bp, &|| format!("{} p={:?}", ctx(), ps));
                // documented image of frustum edges: |x_ndc| = |u|, |y_ndc| = |v| (against the reference mapping)
                let tol_xy = 16.0 * eps * tcond + 4.0 * eps;
                env(acc, &format!("{tn}::{name}(x maps to +-1 at the frustum edge)"), wantp[0], pu, tol_xy * (1.0 + pu.abs()), &ctx);
                env(acc, &format!("{tn}::{name}(y maps to +-1 at the frustum edge)"), wantp[1], pv, tol_xy * (1.0 + pv.abs()), &ctx);
            }
        });
        // orthographic boxes
        let gx = [-10.0, -1.0, 0.5, 2.0, 100.0];
        let gz = [0.1, 1.0, 2.0, 50.0, 1000.0];
        $rep.sweep(&format!("{tn}/orthographic_*/5^6 boxes (non-empty, either x / y orientation) x 3 variants"), 15625 * 3, |idx, acc| {
            let d = digits(idx, [5, 5, 5, 5, 5, 5, 3]);
            let (l, r, b, t, n, f) = (gx[d[0]] as $S, gx[d[1]] as $S, gx[d[2]] as $S, gx[d[3]] as $S, gz[d[4]] as $S, gz[d[5]] as $S);
            // every box with non-empty extent, also with inverted x / y extents (y-down screen boxes)
            if !(l != r && b != t && n < f) {
                return;
            }
            let (lf, rf, bf, tf, nf_, ff) = (l as f64, r as f64, b as f64, t as f64, n as f64, f as f64);
            let (name, m, want): (&str, $M, Mx) = match d[6] {
                0 => ("orthographic_rh_gl", <$M>::orthographic_rh_gl(l, r, b, t, n, f), ortho_ref(true, lf, rf, bf, tf, nf_, ff, -1.0, 1.0)),
                1 => ("orthographic_lh", <$M>::orthographic_lh(l, r, b, t, n, f), ortho_ref(false, lf, rf, bf, tf, nf_, ff, 0.0, 1.0)),
                _ => ("orthographic_rh", <$M>::orthographic_rh(l, r, b, t, n, f), ortho_ref(true, lf, rf, bf, tf, nf_, ff, 0.0, 1.0)),
            };
            let g = cols4(&m);
            let ctx = || format!("{name}({lf}, {rf}, {bf}, {tf}, {nf_}, {ff})");
            let cx = (lf.abs() + rf.abs()) / (rf - lf).abs();
            let cy = (bf.abs() + tf.abs()) / (tf - bf).abs();
            let cz = (nf_.abs() + ff.abs()) / (ff - nf_);
            let mut bound = vec![0.0; 16];
            bound[0] = 8.0 * eps * (1.0 + cx) * want.a[0].abs();
            bound[5] = 8.0 * eps * (1.0 + cy) * want.a[5].abs();
            bound[10] = 8.0 * eps * (1.0 + cz) * want.a[10].abs();
            bound[12] = 8.0 * eps * (1.0 + cx) * (1.0 + cx);
            bound[13] = 8.0 * eps * (1.0 + cy) * (1.0 + cy);
            bound[14] = 8.0 * eps * (1.0 + cz) * (1.0 + cz);
            acc.eval(true, g.a[12].to_bits() ^ g.a[0].to_bits().rotate_left(9));
            env_vec(acc, &format!("{tn}::{name}"), g.cols(), want.cols(), &bound, &ctx);
            // box corners map to +-1 / documented depths (evaluated on the reference mapping; the
            // matrix itself was compared above), transform_point3 = M (p, 1) without divide
            for (u, v, w) in [(0.0, 0.0, 0.0), (1.0, 1.0, 1.0), (1.0, 0.0, 0.5), (0.25, 0.75, 0.1)] {
                let dist = nf_ + (ff - nf_) * w;
                let p = <$V3>::new((lf + (rf - lf) * u) as $S, (bf + (tf - bf) * v) as $S, if d[6] == 1 { dist } else { -dist } as $S);
                let ps = [p.x as f64, p.y as f64, p.z as f64, 1.0];
                let wantp = g.mulv(&ps);
                let sc = g.mulv_abs(&ps);
                let got = m.transform_point3(p);
                let gp = [got.x as f64, got.y as f64, got.z as f64];
                let bp: Vec<f64> = (0..3).map(|i| 10.0 * eps * sc[i]).collect();
                env_vec(acc, &format!("{tn}::transform_point3"), &gp, &wantp[..3], &bp, &|| format!("{} p={:?}", ctx(), ps));
                // an orthographic matrix has clip w = 1: project_point3 equals transform_point3
                let gq = m.project_point3(p);
                let bq: Vec<f64> = bp.iter().map(|b| b * 2.0).collect();
                env_vec(acc, &format!("{tn}::project_point3(orthographic)"), &[gq.x as f64, gq.y as f64, gq.z as f64], &wantp[..3], &bq, &|| format!("{} p={:?}", ctx(), ps));
                projections!(@p3a $M, acc, tn, m, p, [gq.x as f64, gq.y as f64, gq.z as f64], ctx);
                let gv = m.transform_vector3(p);
                let wv = g.mulv(&[ps[0], ps[1], ps[2], 0.0]);
                let sv = g.mulv_abs(&[ps[0], ps[1], ps[2], 0.0]);
                env_vec(acc, &format!("{tn}::transform_vector3"), &[gv.x as f64, gv.y as f64, gv.z as f64], &wv[..3], &(0..3).map(|i| 10.0 * eps * sv[i]).collect::<Vec<_>>(), &|| format!("{} v={:?}", ctx(), ps));
            }
        });
    }};
}

fn main() {
    let mut rep = Report::new("C11", "exploration");
    silence_panics();
    rep.rule("cases = (constructor, parameter tuple): look_to/look_at for 27 eyes x all pairs of unit integer directions (dir, up) with |dir x up| >= 1e-3 x both handedness, on Mat4/Affine3A/Mat3/Mat3A/Quat and f64 forms, vs the rigid transform defined by the documented mapping; perspective_* (7 variants) on fov grid in (1e-2, pi-1e-2) x aspect {1e-2..1e2} x near {1e-3,.1,1} x far/near {1+2^-10,2,10,1e3,1e4,3e5,1e6}: all 16 entries vs the matrix derived from the documented depth values, w = -z/+z and fov/aspect scaling, tolerance scaled by far/(far-near) and the conditioning of tan; orthographic_* on every non-empty box of a 5^6 grid; project_point3/transform_point3/transform_vector3 on frustum corners, plane centres and interior points vs the f64 evaluation of M(p,1)/w; all cases non-trivial");
    views!(rep, f32, EPS32, Vec3, [Mat4, Affine3A], [Mat3, Mat3A, Quat]);
    views!(rep, f64, EPS64, DVec3, [DMat4, DAffine3], [DMat3, DQuat]);
    projections!(rep, Mat4, f32, EPS32, Vec3);
    projections!(rep, DMat4, f64, EPS64, DVec3);
    rep.sample(json!({"constructor": "Mat4::look_to_lh", "eye": [-7.5, 0.25, 2.0], "dir": "(1,-2,2)/3", "up": "(0,1,1)/sqrt2", "reference": "rows (y x z, up orthogonalised, +dir), translation -R eye"}));
    rep.sample(json!({"constructor": "Mat4::perspective_infinite_reverse_rh", "fov": 1.58, "aspect": 1.7777, "near": 0.1, "reference": "w=-z, depth(near)=1, depth(inf)=0"}));
    std::process::exit(rep.finish());
}
