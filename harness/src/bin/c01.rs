//! C01 — element-wise float vector ops equal the per-lane IEEE primitive (engine E1).
//! Every case builds real glam vectors, calls the real operation and compares each lane
//! with the Rust primitive applied to that lane's operands alone (mode ieee).
#![allow(clippy::all)]
use harness::lat::*;
use harness::rep::*;
use harness::{fmt_bits, ieee};
use serde_json::json;
use std::ops::*;

#[cfg(feature = "libm")]
mod prim {
    pub fn exp32(x: f32) -> f32 {
        libm::expf(x)
    }
    pub fn pow32(x: f32, y: f32) -> f32 {
        libm::powf(x, y)
    }
    pub fn exp64(x: f64) -> f64 {
        libm::exp(x)
    }
    pub fn pow64(x: f64, y: f64) -> f64 {
        libm::pow(x, y)
    }
}
#[cfg(not(feature = "libm"))]
mod prim {
    pub fn exp32(x: f32) -> f32 {
        x.exp()
    }
    pub fn pow32(x: f32, y: f32) -> f32 {
        x.powf(y)
    }
    pub fn exp64(x: f64) -> f64 {
        x.exp()
    }
    pub fn pow64(x: f64, y: f64) -> f64 {
        x.powf(y)
    }
}

// background operand tuples for lanes that are not under test (pairwise distinct per lane)
const BG32: [[[f32; 3]; 4]; 2] = [
    [[1.5, -2.25, 0.5], [3.0, 0.5, -1.0], [-7.0, 4.0, 2.0], [0.75, -0.125, 8.0]],
    [[f32::NAN, 1.0, 2.0], [-0.0, f32::INFINITY, -3.0], [1e20, 1e-20, 1e30], [-1.0, f32::NAN, 0.0]],
];
const BG64: [[[f64; 3]; 4]; 2] = [
    [[1.5, -2.25, 0.5], [3.0, 0.5, -1.0], [-7.0, 4.0, 2.0], [0.75, -0.125, 8.0]],
    [[f64::NAN, 1.0, 2.0], [-0.0, f64::INFINITY, -3.0], [1e200, 1e-200, 1e300], [-1.0, f64::NAN, 0.0]],
];

macro_rules! c01_type {
    ($fn:ident, $T:ident, $S:ident, $N:expr, $BG:ident, $exp:path, $pow:path, $special:ident, $small:ident) => {
        fn $fn(rep: &mut Report, sweep_all: bool) {
            type T = glam::$T;
            type S = $S;
            const N: usize = $N;
            const TN: &str = stringify!($T);
            let is32 = std::mem::size_of::<S>() == 4;

            // ------------------------------------------------------------------ unary
            // ops_level 0: rounding family (bit tricks) only; 1: all unary ops
            let unary = |x: [S; N], lvl: u32, acc: &mut Acc| {
                let v = <T as harness::flat::Flat>::build(&x);
                let nz = x.iter().any(|a| *a != 0.0);
                macro_rules! un {
                    ($site:literal, $got:expr, $f:expr) => {{
                        let g: [S; N] = $got.to_array();
                        let mut e = [0.0 as S; N];
                        let mut ok = true;
                        let mut h = 0u64;
                        for i in 0..N {
                            e[i] = $f(x[i]);
                            ok &= ieee(g[i], e[i]);
                            h = hmix(h, g[i].to_bits() as u64);
                        }
                        acc.eval(nz && e.iter().any(|a| !a.is_nan()), h);
                        if !ok {
                            acc.fail(
                                &format!("{}::{}", TN, $site),
                                format!("in={} got={} want={}", fmt_bits(&x), fmt_bits(&g), fmt_bits(&e)),
                            );
                        }
                    }};
                }
                un!("round", v.round(), S::round);
                un!("floor", v.floor(), S::floor);
                un!("ceil", v.ceil(), S::ceil);
                un!("trunc", v.trunc(), S::trunc);
                if lvl == 0 {
                    return;
                }
                un!("fract", v.fract(), S::fract);
                un!("fract_gl", v.fract_gl(), |a: S| a - a.floor());
                un!("neg", -v, |a: S| -a);
                un!("neg_ref", -&v, |a: S| -a);
                un!("abs", v.abs(), S::abs);
                un!("signum", v.signum(), S::signum);
                un!("recip", v.recip(), S::recip);
                un!("exp", v.exp(), $exp);
                // scalar / bitmask results
                macro_rules! sc {
                    ($site:literal, $got:expr, $want:expr) => {{
                        let g = $got;
                        let w = $want;
                        acc.eval(nz, g as u64);
                        if g != w {
                            acc.fail(&format!("{}::{}", TN, $site), format!("in={} got={:?} want={:?}", fmt_bits(&x), g, w));
                        }
                    }};
                }
                let mut nanm = 0u32;
                let mut finm = 0u32;
                let mut negm = 0u32;
                for i in 0..N {
                    nanm |= (x[i].is_nan() as u32) << i;
                    finm |= (x[i].is_finite() as u32) << i;
                    negm |= (x[i].is_sign_negative() as u32) << i;
                }
                sc!("is_nan", v.is_nan(), nanm != 0);
                sc!("is_finite", v.is_finite(), finm == (1 << N) - 1);
                sc!("is_nan_mask", v.is_nan_mask().bitmask(), nanm);
                sc!("is_finite_mask", v.is_finite_mask().bitmask(), finm);
                sc!("is_negative_bitmask", v.is_negative_bitmask(), negm);
                if nanm == 0 {
                    let mut mn = x[0];
                    let mut mx = x[0];
                    for i in 1..N {
                        if x[i] < mn {
                            mn = x[i];
                        }
                        if x[i] > mx {
                            mx = x[i];
                        }
                    }
                    let gmin = v.min_element();
                    let gmax = v.max_element();
                    acc.eval(nz, gmin.to_bits() as u64);
                    if !ieee(gmin, mn) {
                        acc.fail(&format!("{}::min_element", TN), format!("in={} got={:?} want={:?}", fmt_bits(&x), gmin, mn));
                    }
                    acc.eval(nz, gmax.to_bits() as u64);
                    if !ieee(gmax, mx) {
                        acc.fail(&format!("{}::max_element", TN), format!("in={} got={:?} want={:?}", fmt_bits(&x), gmax, mx));
                    }
                    // position: the returned index must hold a minimal / maximal lane; documented
                    // tie-break is the first such lane
                    let pmin = (0..N).find(|&i| x[i] == mn).unwrap();
                    let pmax = (0..N).find(|&i| x[i] == mx).unwrap();
                    sc!("min_position", v.min_position(), pmin);
                    sc!("max_position", v.max_position(), pmax);
                }
            };

            // f32: all 2^32 bit patterns through every lane (lane-rotation sweep) in the thorough
            // tier; in the quick tier the declared sub-lattice `band`: every bit pattern with
            // 0.25 <= |x| < 2^25 (where the fraction bits interact with the rounding tricks) plus
            // 1024 evenly spaced mantissas of every other exponent, both signs
            if is32 && sweep_all {
                if rep.thorough() {
                    rep.sweep(&format!("{TN}/unary/F32_ALL"), 1u64 << 32, |idx, acc| {
                        let b = idx as u32;
                        let mut x = [0.0 as S; N];
                        for i in 0..N {
                            x[i] = f32::from_bits(phi(i, b)) as S;
                        }
                        unary(x, 1, acc);
                    });
                } else {
                    const BAND: u64 = 27 << 23;
                    const REST: u64 = 229 << 10;
                    let band = |k: u64| -> u32 {
                        let sign = (k & 1) as u32;
                        let k = k >> 1;
                        let mag = if k < BAND {
                            ((125 + (k >> 23)) << 23 | (k & 0x7F_FFFF)) as u32
                        } else {
                            let r = k - BAND;
                            let e = r >> 10;
                            let e = if e < 125 { e } else { e + 27 };
                            ((e << 23) | ((r & 0x3FF) << 13)) as u32
                        };
                        (sign << 31) | mag
                    };
                    let size = 2 * (BAND + REST);
                    rep.sweep(&format!("{TN}/unary/F32_BAND(0.25<=|x|<2^25 complete + 1024/exponent)"), size, |idx, acc| {
                        let mut x = [0.0 as S; N];
                        for i in 0..N {
                            x[i] = f32::from_bits(band((idx + (i as u64) * 100_000_007) % size)) as S;
                        }
                        unary(x, 0, acc);
                    });
                }
            }
            // grid ∪ special through every lane (rotated so the lanes of one vector differ)
            {
                let sp: Vec<S> = $special();
                let gn: u64 = if is32 { F32_GRID_N as u64 } else { F64_GRID_N as u64 };
                let tot = gn + sp.len() as u64;
                let val = |k: u64| -> S {
                    if k < gn {
                        if is32 {
                            f32_grid(k as u32) as S
                        } else {
                            f64_grid(k as u32) as S
                        }
                    } else {
                        sp[(k - gn) as usize]
                    }
                };
                rep.sweep(&format!("{TN}/unary/GRID+SPECIAL"), tot, |idx, acc| {
                    let mut x = [0.0 as S; N];
                    for i in 0..N {
                        x[i] = val((idx + (i as u64) * 1021) % tot);
                    }
                    unary(x, 1, acc);
                });
                // all-lanes-equal diagonal and lane isolation with background
                rep.sweep(&format!("{TN}/unary/SPECIAL x lane-isolation"), (sp.len() * (N + 1) * 2) as u64, |idx, acc| {
                    let d = digits(idx, [sp.len() as u64, (N + 1) as u64, 2]);
                    let mut x = [0.0 as S; N];
                    for i in 0..N {
                        x[i] = if d[1] == N || d[1] == i { sp[d[0]] } else { $BG[d[2]][i][0] };
                    }
                    unary(x, 1, acc);
                });
            }

            // ------------------------------------------------------------------ binary
            let binary = |a: [S; N], b: [S; N], acc: &mut Acc| {
                let va = <T as harness::flat::Flat>::build(&a);
                let vb = <T as harness::flat::Flat>::build(&b);
                let nz = a.iter().any(|x| *x != 0.0) || b.iter().any(|x| *x != 0.0);
                macro_rules! bin {
                    ($site:literal, $got:expr, $f:expr, $skipnan:expr) => {{
                        let g: [S; N] = $got.to_array();
                        let mut e = [0.0 as S; N];
                        let mut ok = true;
                        let mut h = 0u64;
                        for i in 0..N {
                            e[i] = $f(a[i], b[i]);
                            if $skipnan && (a[i].is_nan() || b[i].is_nan()) {
                                continue;
                            }
                            ok &= ieee(g[i], e[i]);
                            h = hmix(h, g[i].to_bits() as u64);
                        }
                        acc.eval(nz && e.iter().any(|x| !x.is_nan()), h);
                        if !ok {
                            acc.fail(
                                &format!("{}::{}", TN, $site),
                                format!("a={} b={} got={} want={}", fmt_bits(&a), fmt_bits(&b), fmt_bits(&g), fmt_bits(&e)),
                            );
                        }
                    }};
                }
                bin!("add", va + vb, |x: S, y: S| x + y, false);
                bin!("sub", va - vb, |x: S, y: S| x - y, false);
                bin!("mul", va * vb, |x: S, y: S| x * y, false);
                bin!("div", va / vb, |x: S, y: S| x / y, false);
                bin!("rem", va % vb, |x: S, y: S| x % y, false);
                bin!("add_ref", &va + &vb, |x: S, y: S| x + y, false);
                bin!("sub_ref", &va - vb, |x: S, y: S| x - y, false);
                bin!("mul_ref", va * &vb, |x: S, y: S| x * y, false);
                bin!("div_ref", &va / &vb, |x: S, y: S| x / y, false);
                bin!("rem_ref", &va % &vb, |x: S, y: S| x % y, false);
                macro_rules! asg {
                    ($site:literal, $op:ident, $f:expr) => {{
                        let mut t = va;
                        t.$op(vb);
                        bin!($site, t, $f, false);
                        let mut t = va;
                        t.$op(&vb);
                        bin!($site, t, $f, false);
                    }};
                }
                asg!("add_assign", add_assign, |x: S, y: S| x + y);
                asg!("sub_assign", sub_assign, |x: S, y: S| x - y);
                asg!("mul_assign", mul_assign, |x: S, y: S| x * y);
                asg!("div_assign", div_assign, |x: S, y: S| x / y);
                asg!("rem_assign", rem_assign, |x: S, y: S| x % y);
                bin!("min", va.min(vb), S::min, true);
                bin!("max", va.max(vb), S::max, true);
                bin!("copysign", va.copysign(vb), S::copysign, false);
                bin!("div_euclid", va.div_euclid(vb), S::div_euclid, false);
                bin!("rem_euclid", va.rem_euclid(vb), S::rem_euclid, false);
                // comparisons -> masks
                macro_rules! cmp {
                    ($site:literal, $m:ident, $f:expr) => {{
                        let g = va.$m(vb).bitmask();
                        let mut w = 0u32;
                        for i in 0..N {
                            w |= ($f(&a[i], &b[i]) as u32) << i;
                        }
                        acc.eval(nz, g as u64);
                        if g != w {
                            acc.fail(&format!("{}::{}", TN, $site), format!("a={} b={} got={:#b} want={:#b}", fmt_bits(&a), fmt_bits(&b), g, w));
                        }
                    }};
                }
                cmp!("cmpeq", cmpeq, S::eq);
                cmp!("cmpne", cmpne, S::ne);
                cmp!("cmplt", cmplt, S::lt);
                cmp!("cmple", cmple, S::le);
                cmp!("cmpgt", cmpgt, S::gt);
                cmp!("cmpge", cmpge, S::ge);
                let weq = (0..N).all(|i| a[i] == b[i]);
                let geq = va == vb;
                let gne = va != vb;
                acc.eval(nz, geq as u64);
                if geq != weq || gne == weq {
                    acc.fail(&format!("{}::eq", TN), format!("a={} b={} eq={} ne={} want eq={}", fmt_bits(&a), fmt_bits(&b), geq, gne, weq));
                }
                // vector ∘ scalar / scalar ∘ vector: scalar operand = b[0]
                let s = b[0];
                macro_rules! vs {
                    ($site:literal, $got:expr, $f:expr) => {{
                        let g: [S; N] = $got.to_array();
                        let mut e = [0.0 as S; N];
                        let mut ok = true;
                        let mut h = 0u64;
                        for i in 0..N {
                            e[i] = $f(a[i], s);
                            ok &= ieee(g[i], e[i]);
                            h = hmix(h, g[i].to_bits() as u64);
                        }
                        acc.eval(nz && e.iter().any(|x| !x.is_nan()), h);
                        if !ok {
                            acc.fail(
                                &format!("{}::{}", TN, $site),
                                format!("v={} s={} got={} want={}", fmt_bits(&a), fmt_bits(&[s]), fmt_bits(&g), fmt_bits(&e)),
                            );
                        }
                    }};
                }
                vs!("add_scalar", va + s, |x: S, y: S| x + y);
                vs!("sub_scalar", va - s, |x: S, y: S| x - y);
                vs!("mul_scalar", va * s, |x: S, y: S| x * y);
                vs!("div_scalar", va / s, |x: S, y: S| x / y);
                vs!("rem_scalar", va % s, |x: S, y: S| x % y);
                vs!("add_scalar_ref", &va + &s, |x: S, y: S| x + y);
                vs!("sub_scalar_ref", &va - s, |x: S, y: S| x - y);
                vs!("mul_scalar_ref", va * &s, |x: S, y: S| x * y);
                vs!("div_scalar_ref", &va / &s, |x: S, y: S| x / y);
                vs!("rem_scalar_ref", &va % &s, |x: S, y: S| x % y);
                vs!("scalar_add", s + va, |x: S, y: S| y + x);
                vs!("scalar_sub", s - va, |x: S, y: S| y - x);
                vs!("scalar_mul", s * va, |x: S, y: S| y * x);
                vs!("scalar_div", s / va, |x: S, y: S| y / x);
                vs!("scalar_rem", s % va, |x: S, y: S| y % x);
                vs!("scalar_add_ref", &s + &va, |x: S, y: S| y + x);
                vs!("scalar_sub_ref", &s - va, |x: S, y: S| y - x);
                vs!("scalar_mul_ref", s * &va, |x: S, y: S| y * x);
                vs!("scalar_div_ref", &s / &va, |x: S, y: S| y / x);
                vs!("scalar_rem_ref", &s % &va, |x: S, y: S| y % x);
                macro_rules! asgs {
                    ($site:literal, $op:ident, $f:expr) => {{
                        let mut t = va;
                        t.$op(s);
                        vs!($site, t, $f);
                        let mut t = va;
                        t.$op(&s);
                        vs!($site, t, $f);
                    }};
                }
                asgs!("add_assign_scalar", add_assign, |x: S, y: S| x + y);
                asgs!("sub_assign_scalar", sub_assign, |x: S, y: S| x - y);
                asgs!("mul_assign_scalar", mul_assign, |x: S, y: S| x * y);
                asgs!("div_assign_scalar", div_assign, |x: S, y: S| x / y);
                asgs!("rem_assign_scalar", rem_assign, |x: S, y: S| x % y);
                vs!("powf", va.powf(s), $pow);
            };

            {
                let sp: Vec<S> = $special();
                let l = sp.len() as u64;
                rep.sweep(&format!("{TN}/binary/SPECIAL^2 x lane-isolation"), l * l * (N as u64 + 1) * 2, |idx, acc| {
                    let d = digits(idx, [l, l, N as u64 + 1, 2]);
                    let mut a = [0.0 as S; N];
                    let mut b = [0.0 as S; N];
                    for i in 0..N {
                        if d[2] == N || d[2] == i {
                            a[i] = sp[d[0]];
                            b[i] = sp[d[1]];
                        } else {
                            a[i] = $BG[d[3]][i][0];
                            b[i] = $BG[d[3]][i][1];
                        }
                    }
                    binary(a, b, acc);
                });
                // all pairs of the exponent x mantissa-shape grid, shifted per lane
                let (gn, step): (u64, u64) = if is32 {
                    (F32_GRID_N as u64, if rep.thorough() { 1 } else { 8 })
                } else {
                    // f64: the pair space of the full 65536 grid is 4.3e9; pairs of the sub-grid
                    // of every `step`-th value (all exponents hit through the lane shift)
                    (F64_GRID_N as u64, if rep.thorough() { 16 } else { 64 })
                };
                let m = gn / step;
                let gv = |k: u64| -> S {
                    if is32 {
                        f32_grid((k % gn) as u32) as S
                    } else {
                        f64_grid((k % gn) as u32) as S
                    }
                };
                // sub-grid index j -> grid index j*step + (j % step) keeps all mantissa shapes
                let sub = move |j: u64| -> u64 { (j * step + (j % step)) % gn };
                rep.sweep(&format!("{TN}/binary/GRID^2 (step {step})"), m * m, |idx, acc| {
                    let p = idx % m;
                    let q = idx / m;
                    let mut a = [0.0 as S; N];
                    let mut b = [0.0 as S; N];
                    for i in 0..N {
                        a[i] = gv(sub((p + 37 * i as u64) % m) + 3 * i as u64);
                        b[i] = gv(sub((q + 101 * i as u64) % m) + 5 * i as u64);
                    }
                    binary(a, b, acc);
                });
            }

            // ------------------------------------------------------------------ ternary
            {
                let sm: Vec<S> = $small();
                let l = sm.len() as u64;
                rep.sweep(&format!("{TN}/ternary/SMALL^3 x lane-isolation"), l * l * l * (N as u64 + 1), |idx, acc| {
                    let d = digits(idx, [l, l, l, N as u64 + 1]);
                    let mut a = [0.0 as S; N];
                    let mut b = [0.0 as S; N];
                    let mut c = [0.0 as S; N];
                    for i in 0..N {
                        if d[3] == N || d[3] == i {
                            a[i] = sm[d[0]];
                            b[i] = sm[d[1]];
                            c[i] = sm[d[2]];
                        } else {
                            a[i] = $BG[0][i][0];
                            b[i] = $BG[0][i][1];
                            c[i] = $BG[0][i][2];
                        }
                    }
                    let (va, vb, vc) = (<T as harness::flat::Flat>::build(&a), <T as harness::flat::Flat>::build(&b), <T as harness::flat::Flat>::build(&c));
                    // mul_add: fused
                    let g = va.mul_add(vb, vc).to_array();
                    let mut e = [0.0 as S; N];
                    let mut ok = true;
                    let mut h = 0u64;
                    for i in 0..N {
                        e[i] = S::mul_add(a[i], b[i], c[i]);
                        ok &= ieee(g[i], e[i]);
                        h = hmix(h, g[i].to_bits() as u64);
                    }
                    acc.eval(e.iter().any(|x| !x.is_nan() && *x != 0.0), h);
                    if !ok {
                        acc.fail(
                            &format!("{}::mul_add", TN),
                            format!("a={} b={} c={} got={} want={}", fmt_bits(&a), fmt_bits(&b), fmt_bits(&c), fmt_bits(&g), fmt_bits(&e)),
                        );
                    }
                    // clamp(self=a, min=b, max=c) only where b <= c on every lane, compared on non-NaN lanes
                    if (0..N).all(|i| b[i] <= c[i]) {
                        let g = va.clamp(vb, vc).to_array();
                        let mut ok = true;
                        let mut h = 0u64;
                        for i in 0..N {
                            if a[i].is_nan() {
                                continue;
                            }
                            e[i] = a[i].clamp(b[i], c[i]);
                            ok &= ieee(g[i], e[i]);
                            h = hmix(h, g[i].to_bits() as u64);
                        }
                        acc.eval(true, h);
                        if !ok {
                            acc.fail(
                                &format!("{}::clamp", TN),
                                format!("x={} min={} max={} got={} want={}", fmt_bits(&a), fmt_bits(&b), fmt_bits(&c), fmt_bits(&g), fmt_bits(&e)),
                            );
                        }
                    }
                    // abs_diff_eq(a, b, eps = c[0])
                    let eps = c[0];
                    let g = va.abs_diff_eq(vb, eps);
                    let w = (0..N).all(|i| (a[i] - b[i]).abs() <= eps);
                    acc.eval(true, g as u64);
                    if g != w {
                        acc.fail(&format!("{}::abs_diff_eq", TN), format!("a={} b={} eps={:?} got={} want={}", fmt_bits(&a), fmt_bits(&b), eps, g, w));
                    }
                    // Sum / Product: left folds of + and * over sequences of length 0..3
                    for len in 0..=3usize {
                        let seq = [va, vb, vc];
                        let arr = [a, b, c];
                        let gs: T = seq[..len].iter().copied().sum();
                        let gp: T = seq[..len].iter().copied().product();
                        let gsr: T = seq[..len].iter().sum();
                        let gpr: T = seq[..len].iter().product();
                        let mut es = [0.0 as S; N];
                        let mut ep = [1.0 as S; N];
                        for k in 0..len {
                            for i in 0..N {
                                es[i] = es[i] + arr[k][i];
                                ep[i] = ep[i] * arr[k][i];
                            }
                        }
                        for (site, g, e) in [("sum", gs, es), ("product", gp, ep), ("sum_ref", gsr, es), ("product_ref", gpr, ep)] {
                            let g = g.to_array();
                            let ok = (0..N).all(|i| ieee(g[i], e[i]));
                            acc.eval(len > 0, hmix(g[0].to_bits() as u64, len as u64));
                            if !ok {
                                acc.fail(
                                    &format!("{}::{}", TN, site),
                                    format!("seq={:?} len={} got={} want={}", &arr[..len], len, fmt_bits(&g), fmt_bits(&e)),
                                );
                            }
                        }
                    }
                });
                // mul_add on witnesses of fusedness: the exact product a*b lies exactly half-way between two
                // neighbouring values and the addend is far below one ulp of it, so only a single
                // rounding of a*b + c (not a rounded product, nor a product carried in a wider format
                // that cannot hold the addend) gives the right neighbour
                let mbits = S::MANTISSA_DIGITS as u64; // 24 / 53
                let cs: [S; 8] = [S::EPSILON * S::EPSILON * S::EPSILON, -(S::EPSILON * S::EPSILON * S::EPSILON), S::MIN_POSITIVE, -S::MIN_POSITIVE, S::EPSILON * S::EPSILON * S::EPSILON * S::EPSILON * S::EPSILON, -(S::EPSILON * S::EPSILON * S::EPSILON * S::EPSILON * S::EPSILON), 0.0, S::EPSILON * (0.25 as S)];
                rep.sweep(&format!("{TN}/ternary/mul_add half-way products x tiny addends"), (mbits - 1) * 8 * 6 * N as u64, |idx, acc| {
                    let d = digits(idx, [mbits - 1, 8, 6, N as u64]);
                    let k = d[0] as i32 + 1;
                    let two: S = 2.0;
                    let scale = [1.0 as S, -1.0, 4096.0, 1.0 / 1024.0, 3.0, -0.75][d[2]];
                    // (1 + 2^-k)(1 + 2^(k-M)) = 1 + 2^-k + 2^(k-M) + 2^-M: the last term is half an ulp
                    let x = (1.0 as S + two.powi(-k)) * if d[2] < 4 { scale } else { 1.0 };
                    let y = 1.0 as S + two.powi(k - mbits as i32);
                    let z = cs[d[1]] * if d[2] < 4 { scale.abs() } else { scale };
                    let mut a = [1.5 as S; N];
                    let mut b = [-2.25 as S; N];
                    let mut c = [0.125 as S; N];
                    a[d[3]] = x; b[d[3]] = y; c[d[3]] = z;
                    let (va, vb, vc) = (<T as harness::flat::Flat>::build(&a), <T as harness::flat::Flat>::build(&b), <T as harness::flat::Flat>::build(&c));
                    let forms = [("mul_add", va.mul_add(vb, vc).to_array()), ("mul_add(swapped factors)", vb.mul_add(va, vc).to_array())];
                    for (site, g) in forms {
                        let mut e = [0.0 as S; N];
                        let mut h = 0u64;
                        for i in 0..N { e[i] = S::mul_add(a[i], b[i], c[i]); h = hmix(h, g[i].to_bits() as u64); }
                        acc.eval(true, h);
                        if !(0..N).all(|i| ieee(g[i], e[i])) {
                            acc.fail(&format!("{}::{}", TN, site), format!("a={} b={} c={} got={} want={}", fmt_bits(&a), fmt_bits(&b), fmt_bits(&c), fmt_bits(&g), fmt_bits(&e)));
                        }
                    }
                });
            }
        }
    };
}

c01_type!(vec2, Vec2, f32, 2, BG32, prim::exp32, prim::pow32, f32_special, f32_small);
c01_type!(vec3, Vec3, f32, 3, BG32, prim::exp32, prim::pow32, f32_special, f32_small);
c01_type!(vec3a, Vec3A, f32, 3, BG32, prim::exp32, prim::pow32, f32_special, f32_small);
c01_type!(vec4, Vec4, f32, 4, BG32, prim::exp32, prim::pow32, f32_special, f32_small);
c01_type!(dvec2, DVec2, f64, 2, BG64, prim::exp64, prim::pow64, f64_special, f64_small);
c01_type!(dvec3, DVec3, f64, 3, BG64, prim::exp64, prim::pow64, f64_special, f64_small);
c01_type!(dvec4, DVec4, f64, 4, BG64, prim::exp64, prim::pow64, f64_special, f64_small);

fn main() {
    let mut rep = Report::new("C01", "exploration");
    silence_panics();
    rep.rule("cases = (type, operation, operand tuple placed in a lane / all lanes); one evaluation = one real glam call compared lane-by-lane with the Rust primitive (ieee equality); non-trivial = operands not all zero and the reference result has a non-NaN lane; every index of an enumerated product space is a distinct case");
    // quick: full 2^32 sweeps of the rounding family on the SIMD-backed types in SIMD builds
    let th = rep.thorough();
    vec3a(&mut rep, true);
    vec4(&mut rep, true);
    vec2(&mut rep, th);
    vec3(&mut rep, th);
    dvec2(&mut rep, th);
    dvec3(&mut rep, th);
    dvec4(&mut rep, false);
    rep.sample(json!({"space": "Vec3A/unary/F32_ALL", "index": 0x3F00_0000u32, "lanes_bits": [phi(0, 0x3F00_0000), phi(1, 0x3F00_0000), phi(2, 0x3F00_0000)], "ops": ["round", "floor", "ceil", "trunc", "fract", "fract_gl"]}));
    rep.sample(json!({"space": "Vec4/binary/SPECIAL^2 x lane-isolation", "case": "lane 2 = (-2.5, 0.5), other lanes background 0", "ops": "add..rem (+ref/assign/scalar forms), min,max,copysign,div_euclid,rem_euclid,cmp*,==,powf"}));
    rep.sample(json!({"space": "DVec3/ternary/SMALL^3", "case": "mul_add(1e200, 1e200, -inf), clamp, abs_diff_eq, Sum/Product len 0..3"}));
    // every operator trait impl of the tree (inventory from the rustdoc JSON): reference, assign and
    // scalar forms agree with the by-value form decided above
    harness::opforms::run(&mut rep, "fvec", harness::opforms::OPFORMS_FVEC);
    std::process::exit(rep.finish());
}
