//! C04 — quaternion algebra: Hamilton product, conjugate, rotation of vectors (E1).
#![allow(clippy::all)]
use glam::*;
use harness::fam::*;
use harness::refm::*;
use harness::rep::*;
use serde_json::json;

macro_rules! quat_checks {
    ($rep:ident, $Q:ident, $S:ident, $V3:ident, $V4:ident, $eps:expr, [$(($V3x:ident, $mulv:ident)),*]) => {{
        let tn = stringify!($Q);
        let eps: f64 = $eps;
        let mk = |q: &[i64; 4]| <$Q>::from_xyzw(q[0] as $S, q[1] as $S, q[2] as $S, q[3] as $S);
        let arr = |q: $Q| -> [f64; 4] { let a = q.to_array(); [a[0] as f64, a[1] as f64, a[2] as f64, a[3] as f64] };
        // ---- exact: integer grid {-2..2}^4 x {-2..2}^4
        $rep.sweep(&format!("{tn}/exact-int/all pairs of {{-2..2}}^4"), 625 * 625, |idx, acc| {
            let (a, b) = (int_quat(idx % 625, 2), int_quat(idx / 625, 2));
            let (qa, qb) = (mk(&a), mk(&b));
            let fa: Vec<f64> = a.iter().map(|x| *x as f64).collect();
            let fb: Vec<f64> = b.iter().map(|x| *x as f64).collect();
            let nz = a.iter().filter(|x| **x != 0).count() >= 2 && b.iter().filter(|x| **x != 0).count() >= 2;
            let want = qmul(&fa, &fb);
            let mut t = qa;
            t *= qb;
            for (site, g) in [("mul", arr(qa * qb)), ("mul_quat", arr(qa.mul_quat(qb))), ("mul_assign", arr(t)), ("product", arr([qa, qb].iter().product()))] {
                acc.eval(nz, g[0].to_bits() ^ g[3].to_bits().rotate_left(21));
                if g != want {
                    acc.fail(&format!("{tn}::{site}"), format!("a={:?} b={:?} got={:?} want={:?}", a, b, g, want));
                }
            }
            let checks: Vec<(&str, [f64; 4], [f64; 4])> = vec![
                ("conjugate", arr(qa.conjugate()), qconj(&fa)),
                ("add", arr(qa + qb), [fa[0] + fb[0], fa[1] + fb[1], fa[2] + fb[2], fa[3] + fb[3]]),
                ("sub", arr(qa - qb), [fa[0] - fb[0], fa[1] - fb[1], fa[2] - fb[2], fa[3] - fb[3]]),
                ("neg", arr(-qa), [-fa[0], -fa[1], -fa[2], -fa[3]]),
                ("mul_scalar", arr(qa * (b[0] as $S)), [fa[0] * fb[0], fa[1] * fb[0], fa[2] * fb[0], fa[3] * fb[0]]),
                ("div_scalar(4)", arr(qa / 4.0), [fa[0] / 4.0, fa[1] / 4.0, fa[2] / 4.0, fa[3] / 4.0]),
                ("sum", arr([qa, qb, qa].iter().sum()), [2.0 * fa[0] + fb[0], 2.0 * fa[1] + fb[1], 2.0 * fa[2] + fb[2], 2.0 * fa[3] + fb[3]]),
            ];
            for (site, g, w) in checks {
                acc.eval(nz, g[0].to_bits() ^ g[3].to_bits().rotate_left(21));
                // conjugate/neg must also keep exact signs of zero out of the comparison: value equality
                if g != w {
                    acc.fail(&format!("{tn}::{site}"), format!("a={:?} b={:?} got={:?} want={:?}", a, b, g, w));
                }
            }
            // negation and conjugation flip signs *exactly*, the sign of a zero component included
            {
                let l = qa.to_array();
                let (gn, gc) = ((-qa).to_array(), qa.conjugate().to_array());
                for i in 0..4 {
                    if gn[i].to_bits() != (-l[i]).to_bits() { acc.fail(&format!("{tn}::neg(bit-exact)"), format!("a={:?} lane {i}: got={:?} want={:?}", l, gn[i], -l[i])); }
                    let wc = if i < 3 { -l[i] } else { l[i] };
                    if gc[i].to_bits() != wc.to_bits() { acc.fail(&format!("{tn}::conjugate(bit-exact)"), format!("a={:?} lane {i}: got={:?} want={:?}", l, gc[i], wc)); }
                }
            }
            let d = qa.dot(qb) as f64;
            let l2 = qa.length_squared() as f64;
            acc.eval(nz, d.to_bits());
            if d != dot(&fa, &fb) {
                acc.fail(&format!("{tn}::dot"), format!("a={:?} b={:?} got={} want={}", a, b, d, dot(&fa, &fb)));
            }
            if l2 != dot(&fa, &fa) {
                acc.fail(&format!("{tn}::length_squared"), format!("a={:?} got={} want={}", a, l2, dot(&fa, &fa)));
            }
            // a == b and != on integer components
            if (qa == qb) != (a == b) || (qa != qb) == (a == b) {
                acc.fail(&format!("{tn}::eq"), format!("a={:?} b={:?}", a, b));
            }
        });
        // scalar * and / act component-wise like the 4-vector operations: each lane is the single
        // correctly rounded primitive product / quotient
        $rep.sweep(&format!("{tn}/scalar mul,div lane-wise/{{-2..2}}^4 x 9 scalars"), 625 * 9, |idx, acc| {
            let a = int_quat(idx % 625, 2);
            let sc = [3.0 as $S, 7.0, 0.1, -1.3, 1e-3, 49.0, 0.75, -6.0, 1.0 / 3.0][(idx / 625) as usize];
            let q = mk(&a) * (1.1 as $S);
            let l = q.to_array();
            let nz = a.iter().any(|x| *x != 0);
            let gm = (q * sc).to_array();
            let gd = (q / sc).to_array();
            acc.eval(nz, (gd[0] as f64).to_bits() ^ (gm[3] as f64).to_bits().rotate_left(9));
            for i in 0..4 {
                if gm[i] != l[i] * sc { acc.fail(&format!("{tn}::mul_scalar"), format!("q={:?} s={:?} lane {i}: got={:?} want={:?}", l, sc, gm[i], l[i] * sc)); }
                if gd[i] != l[i] / sc { acc.fail(&format!("{tn}::div_scalar"), format!("q={:?} s={:?} lane {i}: got={:?} want={:?}", l, sc, gd[i], l[i] / sc)); }
            }
        });
        // q * v for q in {-2..2}^4, v in {-1,0,1}^3: exact vector part of q (v,0) conj(q)
        $rep.sweep(&format!("{tn}/exact-int/q*v, q in {{-2..2}}^4, v in {{-1,0,1}}^3"), 625 * 27, |idx, acc| {
            let q = int_quat(idx % 625, 2);
            let mut vi = idx / 625;
            let mut v = [0.0f64; 3];
            for i in 0..3 {
                v[i] = (vi % 3) as f64 - 1.0;
                vi /= 3;
            }
            let fq: Vec<f64> = q.iter().map(|x| *x as f64).collect();
            let want = qsandwich(&fq, &v);
            let qq = mk(&q);
            let nz = q.iter().filter(|x| **x != 0).count() >= 2 && v.iter().any(|x| *x != 0.0);
            $(
                let vv = <$V3x>::new(v[0] as $S, v[1] as $S, v[2] as $S);
                for (site, g) in [(concat!("mul<", stringify!($V3x), ">"), qq * vv), (stringify!($mulv), qq.$mulv(vv))] {
                    let g = [g.x as f64, g.y as f64, g.z as f64];
                    acc.eval(nz, g[0].to_bits() ^ g[2].to_bits().rotate_left(21));
                    if g != want {
                        acc.fail(&format!("{tn}::{site}"), format!("q={:?} v={:?} got={:?} want={:?}", q, v, g, want));
                    }
                }
            )*
        });
        // ---- envelope: unit quaternions from ROT, vectors from DIR
        let rot = rot_family(if $rep.thorough() { 1 } else { 0 });
        let sub: Vec<$Q> = rot_subset(if $rep.thorough() { 1 } else { 0 }, if $rep.thorough() { 1024 } else { 128 }).iter().map(|q| <$Q>::from_xyzw(q[0] as $S, q[1] as $S, q[2] as $S, q[3] as $S)).collect();
        let ns = sub.len() as u64;
        let dirs: Vec<[f64; 3]> = int_dirs(2).into_iter().step_by(5).chain([[1.0, 0.0, 0.0], [0.0, 1e-3, 1e3], [3.5e7, -1.25e-4, 2.0]]).collect();
        let nd = dirs.len() as u64;
        let (subr, dirsr) = (&sub, &dirs);
        $rep.sweep(&format!("{tn}/rotation laws/{ns}^2 unit quaternion pairs x {nd} vectors"), ns * ns * nd, |idx, acc| {
            let q = subr[(idx % ns) as usize];
            let p = subr[((idx / ns) % ns) as usize];
            let v = dirsr[(idx / ns / ns) as usize];
            let (fq, fp) = (arr(q), arr(p));
            let vn = norm(&v);
            let ctx = || format!("q={:?} p={:?} v={:?}", fq, fp, v);
            let k = 16.0;
            $(
                let vv = <$V3x>::new(v[0] as $S, v[1] as $S, v[2] as $S);
                let fv = [vv.x as f64, vv.y as f64, vv.z as f64];
                let g = q * vv;
                let g = [g.x as f64, g.y as f64, g.z as f64];
                let want = qsandwich(&fq, &fv);
                let b = k * eps * dot(&fq, &fq) * vn;
                acc.eval(true, g[0].to_bits() ^ g[2].to_bits().rotate_left(21));
                env_vec(acc, &format!("{tn}::mul<{}>(rotation)", stringify!($V3x)), &g, &want, &[b], &ctx);
                // agreement with the rotation matrix of q (unit within a few eps)
                let wm = qmat(&qnormalize(&fq)).mulv(&fv);
                env_vec(acc, &format!("{tn}::mul<{}>(= matrix of q)", stringify!($V3x)), &g, &wm, &[2.0 * b], &ctx);
                // length preserved
                env(acc, &format!("{tn}::mul<{}>(length)", stringify!($V3x)), norm(&g), vn, 2.0 * b, &ctx);
                // (q p) v = q (p v)
                let l = (q * p) * vv;
                let r = q * (p * vv);
                env_vec(acc, &format!("{tn}::mul<{}>(associativity)", stringify!($V3x)), &[l.x as f64, l.y as f64, l.z as f64], &[r.x as f64, r.y as f64, r.z as f64], &[4.0 * b], &ctx);
                // q^-1 (q v) = v
                let back = q.inverse() * (q * vv);
                env_vec(acc, &format!("{tn}::inverse(undoes rotation)", ), &[back.x as f64, back.y as f64, back.z as f64], &fv, &[4.0 * b], &ctx);
                // (-q) v = q v
                let n = (-q) * vv;
                env_vec(acc, &format!("{tn}::neg(same rotation)"), &[n.x as f64, n.y as f64, n.z as f64], &g, &[2.0 * b], &ctx);
            )*
            // Hamilton product on unit quaternions vs f64
            let qp = arr(q * p);
            let want = qmul(&fq, &fp);
            let s: f64 = (0..4).map(|i| fq[i].abs()).sum::<f64>() * (0..4).map(|i| fp[i].abs()).fold(0.0, f64::max);
            env_vec(acc, &format!("{tn}::mul(unit)"), &qp, &want, &[8.0 * eps * s], &ctx);
        });
        // is_near_identity: true when the rotation angle 2*acos|w| is below the documented threshold
        // (0.00284714461 rad); decided outside a factor-2 slack zone around the threshold
        $rep.sweep(&format!("{tn}/is_near_identity/angles around the threshold x axes"), 40 * 7, |idx, acc| {
            let k = (idx % 40) as i32;
            let ax = [[1.0, 0.0, 0.0], [0.0, 1.0, 0.0], [0.0, 0.0, 1.0], [0.6, 0.0, 0.8], [0.26726124, 0.5345225, 0.80178374], [-0.6, 0.8, 0.0], [0.0, -0.6, -0.8]][(idx / 40) as usize];
            let thr = 0.002_847_144_6f64;
            let ang = thr * 2f64.powf((k - 20) as f64 * 0.5); // thr * 2^-10 .. thr * 2^9.5
            for sign in [1.0f64, -1.0] {
                let h = ang * 0.5;
                let q = <$Q>::from_xyzw((ax[0] * h.sin() * sign) as $S, (ax[1] * h.sin() * sign) as $S, (ax[2] * h.sin() * sign) as $S, (h.cos() * sign) as $S);
                let got = q.is_near_identity();
                acc.eval(true, got as u64 | (k as u64) << 1);
                if (ang < thr * 0.5 && !got) || (ang > thr * 2.0 && got) {
                    acc.fail(&format!("{tn}::is_near_identity"), format!("q={:?} rotation angle {:e} (threshold {:e}) -> {}", q, ang, thr, got));
                }
            }
        });
        // length / normalize act like the 4-vector operations
        let grid: Vec<[f64; 4]> = rot.iter().step_by(3).map(|q| [q[0] * 3.5, q[1] * 3.5, q[2] * 3.5, q[3] * 3.5]).chain(rot.iter().step_by(7).map(|q| [q[0] * 1e-6, q[1] * 1e-6, q[2] * 1e-6, q[3] * 1e-6])).collect();
        let ng = grid.len() as u64;
        let gridr = &grid;
        $rep.sweep(&format!("{tn}/length,normalize,inverse/{ng} non-unit quaternions"), ng, |idx, acc| {
            let f = gridr[idx as usize];
            let q = <$Q>::from_xyzw(f[0] as $S, f[1] as $S, f[2] as $S, f[3] as $S);
            let f = arr(q);
            let n = norm(&f);
            let ctx = || format!("q={:?}", f);
            acc.eval(true, (q.length() as f64).to_bits());
            env(acc, &format!("{tn}::length"), q.length() as f64, n, 6.0 * eps * n, &ctx);
            env(acc, &format!("{tn}::length_squared"), q.length_squared() as f64, n * n, 8.0 * eps * n * n, &ctx);
            env(acc, &format!("{tn}::length_recip"), q.length_recip() as f64, 1.0 / n, 8.0 * eps / n, &ctx);
            let u = arr(q.normalize());
            let want: Vec<f64> = f.iter().map(|x| x / n).collect();
            env_vec(acc, &format!("{tn}::normalize"), &u, &want, &[8.0 * eps], &ctx);
            if !q.normalize().is_normalized() {
                acc.fail(&format!("{tn}::is_normalized"), ctx());
            }
            // "dot, length and normalize act component-wise like the 4-vector operations": the same
            // bits as the 4-vector of the same components
            let v4 = <$V4>::from_array(q.to_array());
            let p = <$Q>::from_xyzw(f[1] as $S, -f[0] as $S, f[3] as $S, f[2] as $S * (0.5 as $S));
            let p4 = <$V4>::from_array(p.to_array());
            let pairs: [(&str, Vec<$S>, Vec<$S>); 6] = [
                ("normalize", q.normalize().to_array().to_vec(), v4.normalize().to_array().to_vec()),
                ("length", vec![q.length()], vec![v4.length()]),
                ("length_squared", vec![q.length_squared()], vec![v4.length_squared()]),
                ("length_recip", vec![q.length_recip()], vec![v4.length_recip()]),
                ("dot", vec![q.dot(p)], vec![v4.dot(p4)]),
                ("add,sub", [(q + p).to_array(), (q - p).to_array()].concat(), [(v4 + p4).to_array(), (v4 - p4).to_array()].concat()),
            ];
            for (site, g, w) in pairs {
                if g.iter().zip(w.iter()).any(|(x, y)| x.to_bits() != y.to_bits()) {
                    acc.fail(&format!("{tn}::{site}(same as the 4-vector)"), format!("{} got={:?} 4-vector gives {:?}", ctx(), g, w));
                }
            }
        });
    }};
}

fn main() {
    let mut rep = Report::new("C04", "exploration");
    silence_panics();
    rep.rule("exact layer: all 625^2 pairs of integer quaternions {-2..2}^4 (Hamilton product, conjugate, +, -, scalar, dot, length_squared, ==) and all (q, v) in {-2..2}^4 x {-1,0,1}^3 for q*v against the integer polynomial q(v,0)conj(q); non-trivial = both operands have >= 2 non-zero components. envelope layer: all pairs of a ROT sub-family (integer-direction, octahedral, icosahedral, near-0/near-pi, branch-boundary rotations) x direction vectors: q*v vs f64 polynomial and rotation matrix, length, associativity, inverse, -q, within K*eps*|q|^2*|v|");
    quat_checks!(rep, Quat, f32, Vec3, Vec4, EPS32, [(Vec3, mul_vec3), (Vec3A, mul_vec3a)]);
    quat_checks!(rep, DQuat, f64, DVec3, DVec4, EPS64, [(DVec3, mul_vec3)]);
    rep.sample(json!({"space": "Quat/exact-int", "a": [1, -2, 0, 2], "b": [-1, 1, 2, -2], "oracle": "integer Hamilton product"}));
    rep.sample(json!({"space": "Quat/rotation laws", "q": "icosahedral group element", "p": "rotation by pi-1e-4 about (1,2,-2)/3", "v": [3.5e7, -1.25e-4, 2.0]}));
    // every operator trait impl of the tree (inventory from the rustdoc JSON): reference, assign and
    // scalar forms agree with the by-value form decided above
    harness::opforms::run(&mut rep, "quat", harness::opforms::OPFORMS_QUAT);
    std::process::exit(rep.finish());
}
