//! C05 — Quat, Mat3/Mat3A, Mat4 and the affine types are interchangeable views of a transform.
//! Engine E2 (stateright): a state is one *representation* of a transform (real glam value, stored
//! as bits) plus the f64 reference transform of its seed; every action calls a real conversion
//! function; the always-property compares the state's action on probe points with the reference.
//! All conversion chains up to the depth bound are explored. Commutation laws (composition,
//! inverse, identity) are checked per conversion edge with engine E1.
#![allow(clippy::all)]
use glam::*;
use harness::fam::*;
use harness::mc::run_bfs;
use harness::refm::*;
use harness::rep::*;
use serde_json::json;
use stateright::{Model, Property};

#[derive(Clone, Copy, Debug, PartialEq)]
enum R {
    Q(Quat),
    M3(Mat3),
    M3A(Mat3A),
    M4(Mat4),
    A3(Affine3A),
    DQ(DQuat),
    DM3(DMat3),
    DM4(DMat4),
    DA3(DAffine3),
    // 2-D family (3x3 matrices used as homogeneous 2-D transforms)
    M2(Mat2),
    H3(Mat3),
    H3A(Mat3A),
    A2(Affine2),
    DM2(DMat2),
    DH3(DMat3),
    DA2(DAffine2),
}
impl R {
    fn tag(&self) -> u8 {
        match self {
            R::Q(_) => 0, R::M3(_) => 1, R::M3A(_) => 2, R::M4(_) => 3, R::A3(_) => 4, R::DQ(_) => 5, R::DM3(_) => 6, R::DM4(_) => 7, R::DA3(_) => 8,
            R::M2(_) => 9, R::H3(_) => 10, R::H3A(_) => 11, R::A2(_) => 12, R::DM2(_) => 13, R::DH3(_) => 14, R::DA2(_) => 15,
        }
    }
    fn name(&self) -> &'static str {
        ["Quat", "Mat3", "Mat3A", "Mat4", "Affine3A", "DQuat", "DMat3", "DMat4", "DAffine3", "Mat2", "Mat3(2D)", "Mat3A(2D)", "Affine2", "DMat2", "DMat3(2D)", "DAffine2"][self.tag() as usize]
    }
    fn is32(&self) -> bool {
        matches!(self, R::Q(_) | R::M3(_) | R::M3A(_) | R::M4(_) | R::A3(_) | R::M2(_) | R::H3(_) | R::H3A(_) | R::A2(_))
    }
    fn bits(&self) -> Vec<u64> {
        fn b32(a: &[f32]) -> Vec<u64> {
            a.iter().map(|x| x.to_bits() as u64).collect()
        }
        fn b64(a: &[f64]) -> Vec<u64> {
            a.iter().map(|x| x.to_bits()).collect()
        }
        match self {
            R::Q(v) => b32(&v.to_array()),
            R::M3(v) | R::H3(v) => b32(&v.to_cols_array()),
            R::M3A(v) | R::H3A(v) => b32(&v.to_cols_array()),
            R::M4(v) => b32(&v.to_cols_array()),
            R::A3(v) => b32(&v.to_cols_array()),
            R::M2(v) => b32(&v.to_cols_array()),
            R::A2(v) => b32(&v.to_cols_array()),
            R::DQ(v) => b64(&v.to_array()),
            R::DM3(v) | R::DH3(v) => b64(&v.to_cols_array()),
            R::DM4(v) => b64(&v.to_cols_array()),
            R::DA3(v) => b64(&v.to_cols_array()),
            R::DM2(v) => b64(&v.to_cols_array()),
            R::DA2(v) => b64(&v.to_cols_array()),
        }
    }
    fn from_bits(tag: u8, b: &[u64]) -> R {
        let f: Vec<f32> = b.iter().map(|x| f32::from_bits(*x as u32)).collect();
        let d: Vec<f64> = b.iter().map(|x| f64::from_bits(*x)).collect();
        match tag {
            0 => R::Q(Quat::from_slice(&f)),
            1 => R::M3(Mat3::from_cols_slice(&f)),
            2 => R::M3A(Mat3A::from_cols_slice(&f)),
            3 => R::M4(Mat4::from_cols_slice(&f)),
            4 => R::A3(Affine3A::from_cols_slice(&f)),
            5 => R::DQ(DQuat::from_slice(&d)),
            6 => R::DM3(DMat3::from_cols_slice(&d)),
            7 => R::DM4(DMat4::from_cols_slice(&d)),
            8 => R::DA3(DAffine3::from_cols_slice(&d)),
            9 => R::M2(Mat2::from_cols_slice(&f)),
            10 => R::H3(Mat3::from_cols_slice(&f)),
            11 => R::H3A(Mat3A::from_cols_slice(&f)),
            12 => R::A2(Affine2::from_cols_slice(&f)),
            13 => R::DM2(DMat2::from_cols_slice(&d)),
            14 => R::DH3(DMat3::from_cols_slice(&d)),
            _ => R::DA2(DAffine2::from_cols_slice(&d)),
        }
    }
    /// action of the representation on a point / a direction, through its own public methods
    /// (several equivalent methods per representation; all must agree with the reference)
    fn act(&self, p: &[f64; 3], point: bool) -> Vec<[f64; 3]> {
        let v = Vec3::new(p[0] as f32, p[1] as f32, p[2] as f32);
        let va = Vec3A::from(v);
        let dv = DVec3::new(p[0], p[1], p[2]);
        let o = |v: Vec3| [v.x as f64, v.y as f64, v.z as f64];
        let oa = |v: Vec3A| [v.x as f64, v.y as f64, v.z as f64];
        let od = |v: DVec3| [v.x, v.y, v.z];
        let v2 = Vec2::new(p[0] as f32, p[1] as f32);
        let dv2 = DVec2::new(p[0], p[1]);
        let o2 = |v: Vec2| [v.x as f64, v.y as f64, 0.0];
        let od2 = |v: DVec2| [v.x, v.y, 0.0];
        match self {
            R::Q(q) => vec![o(*q * v), oa(*q * va), o(q.mul_vec3(v)), oa(q.mul_vec3a(va))],
            R::M3(m) => vec![o(*m * v), oa(*m * va), o(m.mul_vec3(v))],
            R::M3A(m) => vec![o(*m * v), oa(*m * va), oa(m.mul_vec3a(va))],
            R::M4(m) => {
                if point {
                    vec![o(m.transform_point3(v)), oa(m.transform_point3a(va)), { let r = *m * v.extend(1.0); [r.x as f64, r.y as f64, r.z as f64] }, o(m.project_point3(v))]
                } else {
                    vec![o(m.transform_vector3(v)), oa(m.transform_vector3a(va)), { let r = *m * v.extend(0.0); [r.x as f64, r.y as f64, r.z as f64] }]
                }
            }
            R::A3(a) => {
                if point {
                    vec![o(a.transform_point3(v)), oa(a.transform_point3a(va))]
                } else {
                    vec![o(a.transform_vector3(v)), oa(a.transform_vector3a(va))]
                }
            }
            R::DQ(q) => vec![od(*q * dv), od(q.mul_vec3(dv))],
            R::DM3(m) => vec![od(*m * dv), od(m.mul_vec3(dv))],
            R::DM4(m) => {
                if point {
                    vec![od(m.transform_point3(dv)), { let r = *m * dv.extend(1.0); [r.x, r.y, r.z] }, od(m.project_point3(dv))]
                } else {
                    vec![od(m.transform_vector3(dv)), { let r = *m * dv.extend(0.0); [r.x, r.y, r.z] }]
                }
            }
            R::DA3(a) => {
                if point {
                    vec![od(a.transform_point3(dv))]
                } else {
                    vec![od(a.transform_vector3(dv))]
                }
            }
            R::M2(m) => vec![o2(*m * v2), o2(m.mul_vec2(v2))],
            R::H3(m) => {
                if point {
                    vec![o2(m.transform_point2(v2)), { let r = *m * v2.extend(1.0); [r.x as f64, r.y as f64, 0.0] }]
                } else {
                    vec![o2(m.transform_vector2(v2)), { let r = *m * v2.extend(0.0); [r.x as f64, r.y as f64, 0.0] }]
                }
            }
            R::H3A(m) => {
                if point {
                    vec![o2(m.transform_point2(v2))]
                } else {
                    vec![o2(m.transform_vector2(v2))]
                }
            }
            R::A2(a) => {
                if point {
                    vec![o2(a.transform_point2(v2))]
                } else {
                    vec![o2(a.transform_vector2(v2))]
                }
            }
            R::DM2(m) => vec![od2(*m * dv2)],
            R::DH3(m) => {
                if point {
                    vec![od2(m.transform_point2(dv2))]
                } else {
                    vec![od2(m.transform_vector2(dv2))]
                }
            }
            R::DA2(a) => {
                if point {
                    vec![od2(a.transform_point2(dv2))]
                } else {
                    vec![od2(a.transform_vector2(dv2))]
                }
            }
        }
    }
    fn has_translation(&self) -> bool {
        matches!(self, R::M4(_) | R::A3(_) | R::DM4(_) | R::DA3(_) | R::H3(_) | R::H3A(_) | R::A2(_) | R::DH3(_) | R::DA2(_))
    }
}

/// conversion edges: (name, needs a pure rotation, function). `None` = not applicable to this representation
type Edge = (&'static str, bool, fn(&R) -> Option<R>);
fn edges() -> Vec<Edge> {
    macro_rules! e {
        ($name:literal, $rot:expr, $pat:pat => $out:expr) => {
            ($name, $rot, (|r: &R| -> Option<R> { match r { $pat => Some($out), _ => None } }) as fn(&R) -> Option<R>)
        };
    }
    vec![
        // ---- 3-D, f32
        e!("Mat3::from_quat", false, R::Q(q) => R::M3(Mat3::from_quat(*q))),
        e!("Mat3A::from_quat", false, R::Q(q) => R::M3A(Mat3A::from_quat(*q))),
        e!("Mat4::from_quat", false, R::Q(q) => R::M4(Mat4::from_quat(*q))),
        e!("Affine3A::from_quat", false, R::Q(q) => R::A3(Affine3A::from_quat(*q))),
        e!("Quat::as_dquat", false, R::Q(q) => R::DQ(q.as_dquat())),
        e!("Quat::from_mat3", true, R::M3(m) => R::Q(Quat::from_mat3(m))),
        e!("Mat3A::from(Mat3)", false, R::M3(m) => R::M3A(Mat3A::from(*m))),
        e!("Mat4::from_mat3", false, R::M3(m) => R::M4(Mat4::from_mat3(*m))),
        e!("Affine3A::from_mat3", false, R::M3(m) => R::A3(Affine3A::from_mat3(*m))),
        e!("Mat3::as_dmat3", false, R::M3(m) => R::DM3(m.as_dmat3())),
        e!("Quat::from_mat3a", true, R::M3A(m) => R::Q(Quat::from_mat3a(m))),
        e!("Mat3::from(Mat3A)", false, R::M3A(m) => R::M3(Mat3::from(*m))),
        e!("Mat4::from_mat3a", false, R::M3A(m) => R::M4(Mat4::from_mat3a(*m))),
        e!("Mat3A::as_dmat3", false, R::M3A(m) => R::DM3(m.as_dmat3())),
        e!("Quat::from_mat4", true, R::M4(m) => R::Q(Quat::from_mat4(m))),
        e!("Mat3::from_mat4", false, R::M4(m) => R::M3(Mat3::from_mat4(*m))),
        e!("Mat3A::from_mat4", false, R::M4(m) => R::M3A(Mat3A::from_mat4(*m))),
        e!("Affine3A::from_mat4", false, R::M4(m) => R::A3(Affine3A::from_mat4(*m))),
        e!("Mat4::as_dmat4", false, R::M4(m) => R::DM4(m.as_dmat4())),
        e!("Mat4::from(Affine3A)", false, R::A3(a) => R::M4(Mat4::from(*a))),
        e!("Quat::from_affine3", true, R::A3(a) => R::Q(Quat::from_affine3(a))),
        e!("Affine3A.matrix3", false, R::A3(a) => R::M3A(a.matrix3)),
        e!("Affine3A::as_daffine3", false, R::A3(a) => R::DA3(a.as_daffine3())),
        // ---- 3-D, f64
        e!("DMat3::from_quat", false, R::DQ(q) => R::DM3(DMat3::from_quat(*q))),
        e!("DMat4::from_quat", false, R::DQ(q) => R::DM4(DMat4::from_quat(*q))),
        e!("DAffine3::from_quat", false, R::DQ(q) => R::DA3(DAffine3::from_quat(*q))),
        e!("DQuat::as_quat", false, R::DQ(q) => R::Q(q.as_quat())),
        e!("DQuat::from_mat3", true, R::DM3(m) => R::DQ(DQuat::from_mat3(m))),
        e!("DMat4::from_mat3", false, R::DM3(m) => R::DM4(DMat4::from_mat3(*m))),
        e!("DAffine3::from_mat3", false, R::DM3(m) => R::DA3(DAffine3::from_mat3(*m))),
        e!("DMat3::as_mat3", false, R::DM3(m) => R::M3(m.as_mat3())),
        e!("DQuat::from_mat4", true, R::DM4(m) => R::DQ(DQuat::from_mat4(m))),
        e!("DMat3::from_mat4", false, R::DM4(m) => R::DM3(DMat3::from_mat4(*m))),
        e!("DAffine3::from_mat4", false, R::DM4(m) => R::DA3(DAffine3::from_mat4(*m))),
        e!("DMat4::as_mat4", false, R::DM4(m) => R::M4(m.as_mat4())),
        e!("DMat4::from(DAffine3)", false, R::DA3(a) => R::DM4(DMat4::from(*a))),
        e!("DQuat::from_affine3", true, R::DA3(a) => R::DQ(DQuat::from_affine3(a))),
        e!("DAffine3.matrix3", false, R::DA3(a) => R::DM3(a.matrix3)),
        e!("DAffine3::as_affine3a", false, R::DA3(a) => R::A3(a.as_affine3a())),
        // ---- 2-D
        e!("Mat3::from_mat2", false, R::M2(m) => R::H3(Mat3::from_mat2(*m))),
        e!("Mat3A::from_mat2", false, R::M2(m) => R::H3A(Mat3A::from_mat2(*m))),
        e!("Affine2::from_mat2", false, R::M2(m) => R::A2(Affine2::from_mat2(*m))),
        e!("Mat2::as_dmat2", false, R::M2(m) => R::DM2(m.as_dmat2())),
        e!("Mat2::from_mat3", false, R::H3(m) => R::M2(Mat2::from_mat3(*m))),
        e!("Mat2::from_mat3_minor(2,2)", false, R::H3(m) => R::M2(Mat2::from_mat3_minor(*m, 2, 2))),
        e!("Mat3A::from(Mat3) 2D", false, R::H3(m) => R::H3A(Mat3A::from(*m))),
        e!("Affine2::from_mat3", false, R::H3(m) => R::A2(Affine2::from_mat3(*m))),
        e!("Mat3::as_dmat3 2D", false, R::H3(m) => R::DH3(m.as_dmat3())),
        e!("Mat2::from_mat3a", false, R::H3A(m) => R::M2(Mat2::from_mat3a(*m))),
        e!("Mat3::from(Mat3A) 2D", false, R::H3A(m) => R::H3(Mat3::from(*m))),
        e!("Affine2::from_mat3a", false, R::H3A(m) => R::A2(Affine2::from_mat3a(*m))),
        e!("Mat3::from(Affine2)", false, R::A2(a) => R::H3(Mat3::from(*a))),
        e!("Mat3A::from(Affine2)", false, R::A2(a) => R::H3A(Mat3A::from(*a))),
        e!("Affine2.matrix2", false, R::A2(a) => R::M2(a.matrix2)),
        e!("Affine2::as_daffine2", false, R::A2(a) => R::DA2(a.as_daffine2())),
        e!("DMat3::from_mat2", false, R::DM2(m) => R::DH3(DMat3::from_mat2(*m))),
        e!("DAffine2::from_mat2", false, R::DM2(m) => R::DA2(DAffine2::from_mat2(*m))),
        e!("DMat2::as_mat2", false, R::DM2(m) => R::M2(m.as_mat2())),
        e!("DMat2::from_mat3", false, R::DH3(m) => R::DM2(DMat2::from_mat3(*m))),
        e!("DAffine2::from_mat3", false, R::DH3(m) => R::DA2(DAffine2::from_mat3(*m))),
        e!("DMat3::as_mat3 2D", false, R::DH3(m) => R::H3(m.as_mat3())),
        e!("DMat3::from(DAffine2)", false, R::DA2(a) => R::DH3(DMat3::from(*a))),
        e!("DAffine2.matrix2", false, R::DA2(a) => R::DM2(a.matrix2)),
        e!("DAffine2::as_affine2", false, R::DA2(a) => R::A2(a.as_affine2())),
    ]
}

#[derive(Clone, Debug, PartialEq, Eq, Hash)]
struct CState {
    tag: u8,
    bits: Vec<u64>,
    seed: u32,
    depth: u8,
    /// translation was dropped by a conversion into a representation without one
    dropped: bool,
    /// an f32 representation has been visited (tolerance uses f32 epsilon from then on)
    lowp: bool,
}
struct Seed {
    /// homogeneous 4x4 reference (2-D seeds: embedded 3x3 with z untouched)
    m: Mx,
    rigid: bool,
    init: R,
    label: String,
}
struct Conv {
    seeds: Vec<Seed>,
    edges: Vec<Edge>,
    max_depth: u8,
}
const PROBES: [[f64; 3]; 7] = [[1.0, 0.0, 0.0], [0.0, 1.0, 0.0], [0.0, 0.0, 1.0], [1.0, -2.0, 3.0], [-0.3, 0.7, 0.2], [25.0, 13.0, -40.0], [1e-3, 2e-3, -1e-3]];

impl Conv {
    fn check(&self, s: &CState) -> Option<(String, String)> {
        let r = R::from_bits(s.tag, &s.bits);
        let seed = &self.seeds[s.seed as usize];
        let eps = if s.lowp { EPS32 } else { EPS64 };
        let two_d = s.tag >= 9;
        let lin = seed.m.block(3);
        let t = [seed.m.at(0, 3), seed.m.at(1, 3), seed.m.at(2, 3)];
        let keep_t = r.has_translation() && !s.dropped;
        let scale = lin.max_abs().max(1e-30) * 3.0;
        for p in PROBES {
            let p = if two_d { [p[0], p[1], 0.0] } else { p };
            for point in [true, false] {
                let mut want = lin.mulv(&p);
                if point && keep_t {
                    for i in 0..3 {
                        want[i] += t[i];
                    }
                }
                if two_d {
                    want[2] = 0.0;
                }
                let tn = if point && keep_t { norm(&t) } else { 0.0 };
                let bound = 16.0 * eps * (s.depth as f64 + 1.0) * (scale * norm(&p) + tn);
                for (k, got) in r.act(&p, point).iter().enumerate() {
                    let err = norm(&sub(got, &want));
                    if !(err <= bound) {
                        return Some((
                            r.name().to_string(),
                            format!("seed `{}`: {} (method #{k}, {}) maps {:?} to {:?}, reference {:?}, err {:e} > bound {:e}", seed.label, r.name(), if point { "point" } else { "vector" }, p, got, want, err, bound),
                        ));
                    }
                }
            }
        }
        None
    }
}
impl Model for Conv {
    type State = CState;
    type Action = u16;
    fn init_states(&self) -> Vec<CState> {
        self.seeds.iter().enumerate().map(|(i, s)| CState { tag: s.init.tag(), bits: s.init.bits(), seed: i as u32, depth: 0, dropped: false, lowp: s.init.is32() }).collect()
    }
    fn actions(&self, s: &CState, a: &mut Vec<u16>) {
        if s.depth >= self.max_depth {
            return;
        }
        let r = R::from_bits(s.tag, &s.bits);
        for (i, (_, needs_rot, f)) in self.edges.iter().enumerate() {
            if *needs_rot && !self.seeds[s.seed as usize].rigid {
                continue;
            }
            if f(&r).is_some() {
                a.push(i as u16);
            }
        }
    }
    fn next_state(&self, s: &CState, a: u16) -> Option<CState> {
        let r = R::from_bits(s.tag, &s.bits);
        let n = (self.edges[a as usize].2)(&r)?;
        // a representation without translation forgets it for the rest of the chain
        let dropped = s.dropped || (r.has_translation() && !n.has_translation()) || !n.has_translation();
        Some(CState { tag: n.tag(), bits: n.bits(), seed: s.seed, depth: s.depth + 1, dropped, lowp: s.lowp || n.is32() })
    }
    fn properties(&self) -> Vec<Property<Self>> {
        vec![Property::always("every representation acts like the seed transform", |m: &Conv, s: &CState| m.check(s).is_none())]
    }
    fn format_action(&self, a: &u16) -> String {
        self.edges[*a as usize].0.to_string()
    }
}

fn seeds(thorough: bool) -> Vec<Seed> {
    let mut v = vec![];
    let rot = if thorough { rot_family(1) } else { rot_subset(0, 128) };
    // pure rotations, entering as f64 quaternions (highest precision view)
    for (i, q) in rot.iter().enumerate() {
        let dq = DQuat::from_xyzw(q[0], q[1], q[2], q[3]);
        let init = match i % 3 {
            0 => R::DQ(dq),
            1 => R::DM3(DMat3::from_quat(dq)),
            _ => R::Q(dq.as_quat()),
        };
        // reference = rotation of the stored value
        let m = match init {
            R::Q(qq) => { let a = qq.to_array(); qmat(&qnormalize(&[a[0] as f64, a[1] as f64, a[2] as f64, a[3] as f64])) }
            _ => qmat(&qnormalize(q)),
        };
        v.push(Seed { m: m.embed(4), rigid: true, init, label: format!("rotation q={:?}", q) });
    }
    // affine maps: scale/shear x rotation x translation
    let lins: [[f64; 9]; 6] = [
        [2.0, 0.0, 0.0, 0.0, 0.5, 0.0, 0.0, 0.0, 3.0],
        [1.0, 0.25, 0.0, -0.5, 1.0, 0.75, 0.0, 0.0, 1.0],
        [-1.0, 0.0, 0.0, 0.0, 1.0, 0.0, 0.0, 0.0, 1.0],
        [1e-2, 0.0, 0.0, 0.0, 1e2, 0.0, 0.0, 0.0, 1.0],
        [1.0, 2.0, 3.0, 0.0, 1.0, 4.0, 0.0, 0.0, 1.0],
        [0.5, -1.5, 2.5, 1.25, 0.75, -0.5, -2.0, 1.0, 0.25],
    ];
    let trans: [[f64; 3]; 5] = [[0.0, 0.0, 0.0], [1.0, -2.0, 3.0], [1e3, 0.25, -7.5], [-1e-3, 1e-3, 0.5], [123.5, -0.001, 99.5]];
    for (li, l) in lins.iter().enumerate() {
        for (ri, q) in rot.iter().step_by((rot.len() / if thorough { 24 } else { 8 }).max(1)).enumerate() {
            for (ti, t) in trans.iter().enumerate() {
                let m3 = qmat(q).mul(&Mx::from_cols(3, l));
                let mut cols = [0.0f64; 12];
                cols[..9].copy_from_slice(m3.cols());
                cols[9..].copy_from_slice(t);
                let init = if (li + ri + ti) % 2 == 0 { R::DA3(DAffine3::from_cols_array(&cols)) } else { R::A3(DAffine3::from_cols_array(&cols).as_affine3a()) };
                // reference = the stored entries
                let stored: Vec<f64> = match init { R::DA3(a) => a.to_cols_array().to_vec(), R::A3(a) => a.to_cols_array().iter().map(|x| *x as f64).collect(), _ => unreachable!() };
                let mut m = Mx::ident(4);
                for c in 0..4 { for r in 0..3 { m.set(r, c, stored[c * 3 + r]); } }
                v.push(Seed { m, rigid: false, init, label: format!("affine lin#{li} rot#{ri} trans#{ti}") });
            }
        }
    }
    // 2-D affine maps
    for ai in 0..if thorough { 48 } else { 12 } {
        for (li, s) in [[1.0, 1.0, 0.0], [2.0, 0.5, 0.0], [-1.0, 3.0, 0.25], [1e-2, 1e2, -0.5]].iter().enumerate() {
            for (ti, t) in trans.iter().enumerate() {
                let th = 0.13 + ai as f64 * 0.53;
                let (sn, cs) = th.sin_cos();
                // rotation * (scale + shear)
                let a = [cs * s[0], sn * s[0], cs * s[2] - sn * s[1], sn * s[2] + cs * s[1], t[0], t[1]];
                let init = if (ai + li + ti) % 2 == 0 { R::DA2(DAffine2::from_cols_array(&a)) } else { R::A2(DAffine2::from_cols_array(&a).as_affine2()) };
                let stored: Vec<f64> = match init { R::DA2(x) => x.to_cols_array().to_vec(), R::A2(x) => x.to_cols_array().iter().map(|x| *x as f64).collect(), _ => unreachable!() };
                let mut m = Mx::ident(4);
                m.set(0, 0, stored[0]); m.set(1, 0, stored[1]); m.set(0, 1, stored[2]); m.set(1, 1, stored[3]); m.set(0, 3, stored[4]); m.set(1, 3, stored[5]);
                v.push(Seed { m, rigid: false, init, label: format!("affine2 angle#{ai} lin#{li} trans#{ti}") });
            }
        }
    }
    v
}

/// commutation laws per conversion edge (E1): convert(a*b) = convert(a)*convert(b),
/// convert(a^-1) = convert(a)^-1, convert(identity) = identity
fn commutation(rep: &mut Report) {
    let th = rep.thorough();
    let rot = rot_family(0);
    let mut qs: Vec<Quat> = rot.iter().step_by((rot.len() / if th { 96 } else { 32 }).max(1)).map(|q| DQuat::from_xyzw(q[0], q[1], q[2], q[3]).as_quat()).collect();
    // plus a handful of the members that sit where implementations branch
    qs.extend(rot_subset(0, 1).iter().skip(1).step_by(if th { 4 } else { 16 }).map(|q| DQuat::from_xyzw(q[0], q[1], q[2], q[3]).as_quat()));
    let n = qs.len() as u64;
    let qr = &qs;
    let probe = |acc: &mut Acc, site: &str, l: &R, r: &R, k: f64, ctx: &dyn Fn() -> String| {
        for p in PROBES {
            for point in [true, false] {
                let (a, b) = (&l.act(&p, point)[0], &r.act(&p, point)[0]);
                let scale = norm(&p) + norm(a);
                env(acc, site, norm(&sub(a, b)), 0.0, k * EPS32 * scale, ctx);
            }
        }
    };
    rep.sweep(&format!("commutation laws/{n}^2 rotation pairs x translation menu"), n * n, |idx, acc| {
        let (q, p) = (qr[(idx % n) as usize], qr[(idx / n) as usize]);
        let (t1, t2) = (Vec3::new(1.0, -2.0, 3.0), Vec3::new(-0.5, 4.0, 0.25));
        let (a, b) = (Affine3A::from_rotation_translation(q, t1), Affine3A::from_scale_rotation_translation(Vec3::new(2.0, 0.5, 1.5), p, t2));
        let ctx = || format!("q={:?} p={:?}", q, p);
        acc.eval(true, idx);
        // quaternion -> matrices
        probe(acc, "Mat3::from_quat(q*p) = from_quat(q)*from_quat(p)", &R::M3(Mat3::from_quat(q * p)), &R::M3(Mat3::from_quat(q) * Mat3::from_quat(p)), 32.0, &ctx);
        probe(acc, "Mat3A::from_quat(q*p) = from_quat(q)*from_quat(p)", &R::M3A(Mat3A::from_quat(q * p)), &R::M3A(Mat3A::from_quat(q) * Mat3A::from_quat(p)), 32.0, &ctx);
        probe(acc, "Mat4::from_quat(q*p) = from_quat(q)*from_quat(p)", &R::M4(Mat4::from_quat(q * p)), &R::M4(Mat4::from_quat(q) * Mat4::from_quat(p)), 32.0, &ctx);
        probe(acc, "Mat3::from_quat(q^-1) = from_quat(q)^-1", &R::M3(Mat3::from_quat(q.inverse())), &R::M3(Mat3::from_quat(q).inverse()), 32.0, &ctx);
        probe(acc, "Quat::from_mat3(A*B) ~ from_mat3(A)*from_mat3(B)", &R::Q(Quat::from_mat3(&(Mat3::from_quat(q) * Mat3::from_quat(p)))), &R::Q(Quat::from_mat3(&Mat3::from_quat(q)) * Quat::from_mat3(&Mat3::from_quat(p))), 64.0, &ctx);
        // the same transform built directly in each representation (and in each width) acts the same
        let sc = Vec3::new(2.0, 0.5, 1.5);
        let (dq, dt, dsc) = (q.as_dquat(), t1.as_dvec3(), sc.as_dvec3());
        probe(acc, "Affine3A::from_rotation_translation ~ Mat4::from_rotation_translation", &R::A3(Affine3A::from_rotation_translation(q, t1)), &R::M4(Mat4::from_rotation_translation(q, t1)), 32.0, &ctx);
        probe(acc, "DAffine3::from_rotation_translation ~ DMat4::from_rotation_translation", &R::DA3(DAffine3::from_rotation_translation(dq, dt)), &R::DM4(DMat4::from_rotation_translation(dq, dt)), 32.0, &ctx);
        probe(acc, "DAffine3::from_rotation_translation ~ Affine3A::from_rotation_translation", &R::DA3(DAffine3::from_rotation_translation(dq, dt)), &R::A3(Affine3A::from_rotation_translation(q, t1)), 32.0, &ctx);
        probe(acc, "DAffine3::from_rotation_translation ~ from_translation * from_quat", &R::DA3(DAffine3::from_rotation_translation(dq, dt)), &R::DA3(DAffine3::from_translation(dt) * DAffine3::from_quat(dq)), 32.0, &ctx);
        probe(acc, "DAffine3::from_scale_rotation_translation ~ DMat4::from_scale_rotation_translation", &R::DA3(DAffine3::from_scale_rotation_translation(dsc, dq, dt)), &R::DM4(DMat4::from_scale_rotation_translation(dsc, dq, dt)), 32.0, &ctx);
        probe(acc, "Affine3A::from_scale_rotation_translation ~ Mat4::from_scale_rotation_translation", &R::A3(Affine3A::from_scale_rotation_translation(sc, q, t1)), &R::M4(Mat4::from_scale_rotation_translation(sc, q, t1)), 32.0, &ctx);
        probe(acc, "DAffine3::from_mat3_translation ~ DMat4::from_mat3_translation", &R::DA3(DAffine3::from_mat3_translation(DMat3::from_quat(dq), dt)), &R::DM4(DMat4::from_mat3_translation(DMat3::from_quat(dq), dt)), 32.0, &ctx);
        probe(acc, "Affine3A::from_mat3_translation ~ Mat4::from_mat3_translation", &R::A3(Affine3A::from_mat3_translation(Mat3::from_quat(q), t1)), &R::M4(Mat4::from_mat3_translation(Mat3::from_quat(q), t1)), 32.0, &ctx);
        // affine <-> Mat4
        probe(acc, "Mat4::from(a*b) = Mat4::from(a)*Mat4::from(b)", &R::M4(Mat4::from(a * b)), &R::M4(Mat4::from(a) * Mat4::from(b)), 64.0, &ctx);
        probe(acc, "Mat4::from(a^-1) = Mat4::from(a)^-1", &R::M4(Mat4::from(b.inverse())), &R::M4(Mat4::from(b).inverse()), 128.0, &ctx);
        probe(acc, "Affine3A::from_mat4(A*B) = from_mat4(A)*from_mat4(B)", &R::A3(Affine3A::from_mat4(Mat4::from(a) * Mat4::from(b))), &R::A3(Affine3A::from_mat4(Mat4::from(a)) * Affine3A::from_mat4(Mat4::from(b))), 64.0, &ctx);
        probe(acc, "Mat3A::from(A*B) = Mat3A::from(A)*Mat3A::from(B)", &R::M3A(Mat3A::from(Mat3::from_quat(q) * Mat3::from_quat(p))), &R::M3A(Mat3A::from(Mat3::from_quat(q)) * Mat3A::from(Mat3::from_quat(p))), 32.0, &ctx);
        probe(acc, "Mat4::from_mat3(A*B) = from_mat3(A)*from_mat3(B)", &R::M4(Mat4::from_mat3(Mat3::from_quat(q) * Mat3::from_quat(p))), &R::M4(Mat4::from_mat3(Mat3::from_quat(q)) * Mat4::from_mat3(Mat3::from_quat(p))), 32.0, &ctx);
        // 2-D
        let (a2, b2) = (Affine2::from_scale_angle_translation(Vec2::new(2.0, 0.5), q.x, Vec2::new(1.0, -2.0)), Affine2::from_angle_translation(p.y * 3.0, Vec2::new(-0.5, 4.0)));
        probe(acc, "Mat3::from(a2*b2) = Mat3::from(a2)*Mat3::from(b2)", &R::H3(Mat3::from(a2 * b2)), &R::H3(Mat3::from(a2) * Mat3::from(b2)), 64.0, &ctx);
        probe(acc, "Mat3::from(a2^-1) = Mat3::from(a2)^-1", &R::H3(Mat3::from(a2.inverse())), &R::H3(Mat3::from(a2).inverse()), 128.0, &ctx);
        probe(acc, "Affine2::from_mat3(A*B) = from_mat3(A)*from_mat3(B)", &R::A2(Affine2::from_mat3(Mat3::from(a2) * Mat3::from(b2))), &R::A2(Affine2::from_mat3(Mat3::from(a2)) * Affine2::from_mat3(Mat3::from(b2))), 64.0, &ctx);
        // mixed operators: a matrix times an affine value (either order) is the product of the matrices
        probe(acc, "Mat3 * Affine2 = Mat3 * Mat3::from(Affine2)", &R::H3(Mat3::from(a2) * b2), &R::H3(Mat3::from(a2) * Mat3::from(b2)), 64.0, &ctx);
        probe(acc, "Affine2 * Mat3 = Mat3::from(Affine2) * Mat3", &R::H3(a2 * Mat3::from(b2)), &R::H3(Mat3::from(a2) * Mat3::from(b2)), 64.0, &ctx);
        probe(acc, "Mat3A * Affine2 = Mat3A * Mat3A::from(Affine2)", &R::H3A(Mat3A::from(a2) * b2), &R::H3A(Mat3A::from(a2) * Mat3A::from(b2)), 64.0, &ctx);
        probe(acc, "Affine2 * Mat3A = Mat3A::from(Affine2) * Mat3A", &R::H3A(a2 * Mat3A::from(b2)), &R::H3A(Mat3A::from(a2) * Mat3A::from(b2)), 64.0, &ctx);
        probe(acc, "Mat4 * Affine3A = Mat4 * Mat4::from(Affine3A)", &R::M4(Mat4::from(a) * b), &R::M4(Mat4::from(a) * Mat4::from(b)), 64.0, &ctx);
        probe(acc, "Affine3A * Mat4 = Mat4::from(Affine3A) * Mat4", &R::M4(a * Mat4::from(b)), &R::M4(Mat4::from(a) * Mat4::from(b)), 64.0, &ctx);
        // composition spelled as an iterator product (by value and over references) converts like `*`
        probe(acc, "Mat4::from([&a,&b,&b].product()) = Mat4::from(a)*Mat4::from(b)*Mat4::from(b)", &R::M4(Mat4::from([a, b, b].iter().product::<Affine3A>())), &R::M4(Mat4::from(a) * Mat4::from(b) * Mat4::from(b)), 128.0, &ctx);
        probe(acc, "Mat3::from([&a2,&b2,&b2].product()) = Mat3::from(a2)*Mat3::from(b2)*Mat3::from(b2)", &R::H3(Mat3::from([a2, b2, b2].iter().product::<Affine2>())), &R::H3(Mat3::from(a2) * Mat3::from(b2) * Mat3::from(b2)), 128.0, &ctx);
        probe(acc, "Mat3::from_quat([&q,&p,&p].product()) = from_quat(q)*from_quat(p)*from_quat(p)", &R::M3(Mat3::from_quat([q, p, p].iter().product::<Quat>())), &R::M3([Mat3::from_quat(q), Mat3::from_quat(p), Mat3::from_quat(p)].iter().product::<Mat3>()), 64.0, &ctx);
        probe(acc, "Mat4::from_mat3([&A,&B,&B].product()) = product of from_mat3", &R::M4(Mat4::from_mat3([Mat3::from_quat(q), Mat3::from_quat(p), Mat3::from_quat(p)].iter().product::<Mat3>())), &R::M4([Mat4::from_quat(q), Mat4::from_quat(p), Mat4::from_quat(p)].iter().product::<Mat4>()), 64.0, &ctx);
        probe(acc, "DMat4::from([&da,&db,&db].product()) = DMat4 product", &R::DM4(DMat4::from([a.as_daffine3(), b.as_daffine3(), b.as_daffine3()].iter().product::<DAffine3>())), &R::DM4(DMat4::from(a.as_daffine3()) * DMat4::from(b.as_daffine3()) * DMat4::from(b.as_daffine3())), 128.0, &ctx);
        // an affine value times a *general* 4x4 (a projection: last row not (0,0,0,1)) is the plain matrix
        // product, entry by entry; the same for 3x3 with a non-affine last row
        {
            let pm = Mat4::perspective_rh(1.1, 1.6, 0.1, 50.0) * Mat4::from_cols_array(&[1.0, 0.5, 0.0, 0.25, 0.0, 1.0, 0.5, -0.5, 0.25, 0.0, 1.0, 0.125, 1.0, -2.0, 3.0, 1.5]);
            let ent = |site: &str, g: Mat4, w: Mat4, acc: &mut Acc| {
                let (g, w) = (g.to_cols_array(), w.to_cols_array());
                let sc = w.iter().fold(0.0f64, |m, x| m.max(x.abs() as f64));
                for k in 0..16 { env(acc, site, g[k] as f64, w[k] as f64, 64.0 * EPS32 * sc, &ctx); }
            };
            ent("Affine3A * Mat4(projection) = Mat4::from(Affine3A) * Mat4", a * pm, Mat4::from(a) * pm, acc);
            ent("Mat4(projection) * Affine3A = Mat4 * Mat4::from(Affine3A)", pm * a, pm * Mat4::from(a), acc);
            let p3 = Mat3::from_cols_array(&[1.0, 0.5, 0.25, -0.5, 1.5, -0.125, 2.0, -1.0, 0.75]);
            let e3 = |site: &str, g: Mat3, w: Mat3, acc: &mut Acc| {
                let (g, w) = (g.to_cols_array(), w.to_cols_array());
                let sc = w.iter().fold(0.0f64, |m, x| m.max(x.abs() as f64));
                for k in 0..9 { env(acc, site, g[k] as f64, w[k] as f64, 64.0 * EPS32 * sc, &ctx); }
            };
            e3("Affine2 * Mat3(general) = Mat3::from(Affine2) * Mat3", a2 * p3, Mat3::from(a2) * p3, acc);
            e3("Mat3(general) * Affine2 = Mat3 * Mat3::from(Affine2)", p3 * a2, p3 * Mat3::from(a2), acc);
            e3("Mat3A(general) * Affine2", Mat3::from(Mat3A::from(p3) * a2), p3 * Mat3::from(a2), acc);
            e3("Affine2 * Mat3A(general)", Mat3::from(a2 * Mat3A::from(p3)), Mat3::from(a2) * p3, acc);
        }
        // the assign form of composition converts like `*`, in every affine type
        {
            let (mut t3, mut t2) = (a, a2);
            t3 *= b; t2 *= b2;
            let (da, db, da2, db2) = (a.as_daffine3(), b.as_daffine3(), DAffine2::from_cols_array(&a2.to_cols_array().map(|x| x as f64)), DAffine2::from_cols_array(&b2.to_cols_array().map(|x| x as f64)));
            let (mut dt3, mut dt2) = (da, da2);
            dt3 *= db; dt2 *= db2;
            probe(acc, "Mat4::from(a *= b) = Mat4::from(a) * Mat4::from(b)", &R::M4(Mat4::from(t3)), &R::M4(Mat4::from(a) * Mat4::from(b)), 64.0, &ctx);
            probe(acc, "Mat3::from(a2 *= b2) = Mat3::from(a2) * Mat3::from(b2)", &R::H3(Mat3::from(t2)), &R::H3(Mat3::from(a2) * Mat3::from(b2)), 64.0, &ctx);
            probe(acc, "DMat4::from(da *= db) = DMat4::from(da) * DMat4::from(db)", &R::DM4(DMat4::from(dt3)), &R::DM4(DMat4::from(da) * DMat4::from(db)), 64.0, &ctx);
            probe(acc, "DMat3::from(da2 *= db2) = DMat3::from(da2) * DMat3::from(db2)", &R::DH3(DMat3::from(dt2)), &R::DH3(DMat3::from(da2) * DMat3::from(db2)), 64.0, &ctx);
        }
        // f64 counterparts commute with the casts
        probe(acc, "(a*b).as_daffine3 = a.as_daffine3*b.as_daffine3", &R::DA3((a * b).as_daffine3()), &R::DA3(a.as_daffine3() * b.as_daffine3()), 64.0, &ctx);
        probe(acc, "(q*p).as_dquat = q.as_dquat*p.as_dquat", &R::DQ((q * p).as_dquat()), &R::DQ(q.as_dquat() * p.as_dquat()), 32.0, &ctx);
    });
    // identity maps to identity exactly
    rep.sweep("identity conversions (exact)", 1, |_, acc| {
        acc.eval(true, 1);
        let checks: Vec<(&str, bool)> = vec![
            ("Mat3::from_quat(IDENTITY)", Mat3::from_quat(Quat::IDENTITY) == Mat3::IDENTITY),
            ("Mat3A::from_quat(IDENTITY)", Mat3A::from_quat(Quat::IDENTITY) == Mat3A::IDENTITY),
            ("Mat4::from_quat(IDENTITY)", Mat4::from_quat(Quat::IDENTITY) == Mat4::IDENTITY),
            ("Affine3A::from_quat(IDENTITY)", Affine3A::from_quat(Quat::IDENTITY) == Affine3A::IDENTITY),
            ("Quat::from_mat3(IDENTITY)", Quat::from_mat3(&Mat3::IDENTITY) == Quat::IDENTITY),
            ("Quat::from_mat3a(IDENTITY)", Quat::from_mat3a(&Mat3A::IDENTITY) == Quat::IDENTITY),
            ("Quat::from_mat4(IDENTITY)", Quat::from_mat4(&Mat4::IDENTITY) == Quat::IDENTITY),
            ("Mat4::from(Affine3A::IDENTITY)", Mat4::from(Affine3A::IDENTITY) == Mat4::IDENTITY),
            ("Affine3A::from_mat4(IDENTITY)", Affine3A::from_mat4(Mat4::IDENTITY) == Affine3A::IDENTITY),
            ("Mat3::from(Affine2::IDENTITY)", Mat3::from(Affine2::IDENTITY) == Mat3::IDENTITY),
            ("Affine2::from_mat3(IDENTITY)", Affine2::from_mat3(Mat3::IDENTITY) == Affine2::IDENTITY),
            ("Mat2::from_mat3(IDENTITY)", Mat2::from_mat3(Mat3::IDENTITY) == Mat2::IDENTITY),
            ("Mat4::from_mat3(IDENTITY)", Mat4::from_mat3(Mat3::IDENTITY) == Mat4::IDENTITY),
            ("DMat3::from_quat(IDENTITY)", DMat3::from_quat(DQuat::IDENTITY) == DMat3::IDENTITY),
            ("DQuat::from_mat4(IDENTITY)", DQuat::from_mat4(&DMat4::IDENTITY) == DQuat::IDENTITY),
            ("DMat4::from(DAffine3::IDENTITY)", DMat4::from(DAffine3::IDENTITY) == DMat4::IDENTITY),
            ("Mat4::IDENTITY.as_dmat4()", Mat4::IDENTITY.as_dmat4() == DMat4::IDENTITY),
        ];
        for (site, ok) in checks {
            if !ok {
                acc.fail(site, "identity is not mapped to identity".into());
            }
        }
    });
}

fn main() {
    let mut rep = Report::new("C05", "model_checking");
    silence_panics();
    rep.rule("stateright model: state = (representation tag, bits of the real glam value, seed id, depth, translation-dropped flag, f32-visited flag); init = seeds (ROT rotations entered as DQuat/DMat3/Quat; affine maps lin x rot x trans entered as DAffine3/Affine3A; 2-D affine maps); actions = every conversion function between representations (65 edges), quaternion targets only for rigid seeds; always-property: every public way the representation acts on 7 probe points and directions equals the seed's f64 reference within 16*eps*(depth+1)*scale; BFS over all chains up to the depth bound. E1: commutation with composition / inverse / identity per conversion edge on rotation pairs");
    let max_depth = 4;
    let model = Conv { seeds: seeds(rep.thorough()), edges: edges(), max_depth };
    rep.extra.insert("seeds".into(), json!(model.seeds.len()));
    rep.extra.insert("edges".into(), json!(model.edges.iter().map(|e| e.0).collect::<Vec<_>>()));
    run_bfs(&mut rep, &format!("conversion-chain model (depth {max_depth})"), "conversion", model, false, |m, s| m.check(s).unwrap_or(("?".into(), "no failing observation on re-evaluation".into())));
    commutation(&mut rep);
    rep.sample(json!({"seed": "rotation by pi-1e-3 about (1,1,0)/sqrt2 entered as DMat3", "chain": ["DMat3::as_mat3", "Quat::from_mat3", "Mat4::from_quat", "Affine3A::from_mat4"], "invariant": "transform_point3/transform_vector3 of the final Affine3A equal the seed rotation on 7 probes within 16*eps32*5*|p|"}));
    std::process::exit(rep.finish());
}
