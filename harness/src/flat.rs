//! `Flat`: a value seen as an ordered list of scalar lanes (vectors, quaternions, arrays,
//! tuples of those). Used by the data-movement checks (C14, C16, C17) — the oracle of a
//! pure move is "output lanes = input lanes in order, bit for bit".
use glam::*;
use std::fmt::Debug;

/// scalar lane type
pub trait Sc: Copy + Debug + PartialEq + PartialOrd + Send + Sync + 'static {
    const NAME: &'static str;
    const IS_FLOAT: bool;
    fn bits(self) -> u64;
    /// k-th tagged value: pairwise distinct for k < 64; floats: NaNs with distinct payloads/signs
    fn tag(k: usize) -> Self;
    /// k-th ordinary value: pairwise distinct finite values (used where NaN != NaN would hide a bug)
    fn fin(k: usize) -> Self;
    /// boundary-biased source lattice for conversion checks
    fn lattice(thorough: bool) -> Vec<Self>;
    /// the lattice plus the values at which casts to narrower floats round (ties, double rounding)
    fn lattice_cast(thorough: bool) -> Vec<Self> { Self::lattice(thorough) }
    fn one() -> Self;
    fn zero() -> Self;
    /// value as f64 (exact for every type but 64-bit integers beyond 2^53)
    fn f(self) -> f64;
    /// nearest value of this type
    fn of(v: f64) -> Self;
}

macro_rules! sc_int {
    ($($t:ident, $signed:expr);*) => {$(
        impl Sc for $t {
            const NAME: &'static str = stringify!($t);
            const IS_FLOAT: bool = false;
            #[inline] fn bits(self) -> u64 { self as u64 }
            #[inline] fn tag(k: usize) -> Self {
                // distinct, includes extremes and negative values
                match k { 0 => <$t>::MAX, 1 => if $signed { <$t>::MIN } else { <$t>::MAX / 2 + 1 }, 2 => 0, 3 => 1, _ if k % 2 == 0 => k as $t, _ => if $signed { (-(k as i128)) as $t } else { (<$t>::MAX as i128 - k as i128) as $t } }
            }
            #[inline] fn fin(k: usize) -> Self { (k as i128 * 7 + 3) as $t }
            fn lattice(thorough: bool) -> Vec<Self> {
                let bits = <$t>::BITS;
                if bits == 8 { return (<$t>::MIN as i128..=<$t>::MAX as i128).map(|v| v as $t).collect(); }
                if bits == 16 { return (<$t>::MIN as i128..=<$t>::MAX as i128).map(|v| v as $t).collect(); }
                let _ = thorough;
                crate::lat::int_lattice(bits, $signed).into_iter().map(|v| v as $t).collect()
            }
            fn lattice_cast(thorough: bool) -> Vec<Self> {
                let bits = <$t>::BITS;
                if bits <= 16 { return Self::lattice(thorough); }
                let mut v = crate::lat::int_lattice(bits, $signed);
                v.extend(crate::lat::int_rounding_boundaries(bits, $signed));
                v.sort();
                v.dedup();
                v.into_iter().map(|v| v as $t).collect()
            }
            fn one() -> Self { 1 }
            fn zero() -> Self { 0 }
            fn f(self) -> f64 { self as f64 }
            fn of(v: f64) -> Self { v as $t }
        }
    )*};
}
sc_int!(i8, true; u8, false; i16, true; u16, false; i32, true; u32, false; i64, true; u64, false; usize, false);

/// neighbourhoods of every power of two up to 2^64 (both signs): where float->int casts saturate
fn f64_boundaries() -> Vec<f64> {
    let mut v = vec![];
    for k in 0..=65 {
        let p = (2.0f64).powi(k);
        for d in [-2i64, -1, 0, 1, 2] {
            let x = f64::from_bits((p.to_bits() as i64 + d) as u64);
            v.push(x);
            v.push(-x);
            v.push(x - 1.0);
            v.push(-(x - 1.0));
            v.push(x - 0.5);
            v.push(-(x - 0.5));
        }
    }
    v
}
/// f64 values at and next to the rounding ties of f32 (normal and subnormal range): where f64 -> f32
/// rounds to even, and where a second rounding would differ
fn f64_f32_ties() -> Vec<f64> {
    let mut v = vec![];
    for k in [-149i32, -140, -127, -126, -125, -60, -1, 0, 1, 23, 24, 25, 52, 53, 54, 63, 64, 100, 126, 127] {
        let p = (2.0f64).powi(k);
        // half an f32 ulp above 2^k (ulp = 2^(k-23) for normal values, 2^-149 below 2^-126)
        let h = if k >= -126 { (2.0f64).powi(k - 24) } else { (2.0f64).powi(-150) };
        for m in [1.0f64, 3.0, 5.0] {
            let t = p + m * h;
            for d in [-1i64, 0, 1] {
                let x = f64::from_bits((t.to_bits() as i64 + d) as u64);
                v.push(x);
                v.push(-x);
            }
        }
    }
    v
}
fn f32_boundaries() -> Vec<f32> {
    let mut v = vec![];
    for k in 0..=65 {
        let p = (2.0f32).powi(k);
        for d in [-2i32, -1, 0, 1, 2] {
            let x = f32::from_bits((p.to_bits() as i32 + d) as u32);
            v.push(x);
            v.push(-x);
            v.push(x - 1.0);
            v.push(-(x - 1.0));
            v.push(x - 0.5);
            v.push(-(x - 0.5));
        }
    }
    v
}

impl Sc for f32 {
    const NAME: &'static str = "f32";
    const IS_FLOAT: bool = true;
    #[inline]
    fn bits(self) -> u64 {
        self.to_bits() as u64
    }
    #[inline]
    fn tag(k: usize) -> Self {
        match k % 4 {
            0 => crate::lat::tag_nan32(k as u32),
            1 => -(k as f32) - 0.5,
            2 => {
                if k == 2 {
                    -0.0
                } else {
                    crate::lat::tag_nan32(k as u32)
                }
            }
            _ => f32::from_bits(0x0000_0001 + k as u32), // subnormals
        }
    }
    #[inline]
    fn fin(k: usize) -> Self {
        k as f32 * 1.25 + 0.5
    }
    fn lattice(_thorough: bool) -> Vec<Self> {
        let mut v = crate::lat::f32_special();
        v.extend(f32_boundaries());
        for i in 0..crate::lat::F32_GRID_N {
            v.push(crate::lat::f32_grid(i));
        }
        let mut seen = std::collections::HashSet::new();
        v.retain(|x| seen.insert(x.to_bits()));
        v
    }
    fn one() -> Self {
        1.0
    }
    fn zero() -> Self {
        0.0
    }
    fn f(self) -> f64 {
        self as f64
    }
    fn of(v: f64) -> Self {
        v as f32
    }
}
impl Sc for f64 {
    const NAME: &'static str = "f64";
    const IS_FLOAT: bool = true;
    #[inline]
    fn bits(self) -> u64 {
        self.to_bits()
    }
    #[inline]
    fn tag(k: usize) -> Self {
        match k % 4 {
            0 => crate::lat::tag_nan64(k as u32),
            1 => -(k as f64) - 0.5,
            2 => {
                if k == 2 {
                    -0.0
                } else {
                    crate::lat::tag_nan64(k as u32)
                }
            }
            _ => f64::from_bits(0x0000_0001 + k as u64),
        }
    }
    #[inline]
    fn fin(k: usize) -> Self {
        k as f64 * 1.25 + 0.5
    }
    fn lattice(_thorough: bool) -> Vec<Self> {
        let mut v = crate::lat::f64_special();
        v.extend(f64_boundaries());
        v.extend(f32_boundaries().into_iter().map(|x| x as f64));
        // f64 values that round across f32 representability boundaries
        for x in [f32::MAX as f64, f32::MAX as f64 * 1.000_000_01, 3.402_823_567_797_336_6e38, 3.402_823_567_797_337e38, f32::MIN_POSITIVE as f64, 1e-46, 7.006_492_321_624_085e-46, 7.006_492_321_624_086e-46, 1.0 + 2f64.powi(-24), 1.0 + 2f64.powi(-24) + 2f64.powi(-52), 1.0 + 3.0 * 2f64.powi(-24)] {
            v.push(x);
            v.push(-x);
        }
        for i in (0..crate::lat::F64_GRID_N).step_by(7) {
            v.push(crate::lat::f64_grid(i));
        }
        let mut seen = std::collections::HashSet::new();
        v.retain(|x| seen.insert(x.to_bits()));
        v
    }
    fn lattice_cast(thorough: bool) -> Vec<Self> {
        let mut v = Self::lattice(thorough);
        v.extend(f64_f32_ties());
        let mut seen = std::collections::HashSet::new();
        v.retain(|x| seen.insert(x.to_bits()));
        v
    }
    fn one() -> Self {
        1.0
    }
    fn zero() -> Self {
        0.0
    }
    fn f(self) -> f64 {
        self
    }
    fn of(v: f64) -> Self {
        v
    }
}

pub trait Flat: Sized {
    type S: Sc;
    const N: usize;
    fn build(l: &[Self::S]) -> Self;
    /// write the N lanes into out[..N] (allocation free)
    fn put(&self, out: &mut [Self::S]);
    fn lanes(&self) -> Vec<Self::S> {
        let mut v = vec![<Self::S as Sc>::zero(); Self::N];
        self.put(&mut v);
        v
    }
}

macro_rules! flat_scalar {
    ($($t:ident),*) => {$(
        impl Flat for $t {
            type S = $t;
            const N: usize = 1;
            #[inline] fn build(l: &[$t]) -> Self { l[0] }
            #[inline] fn put(&self, out: &mut [$t]) { out[0] = *self }
        }
    )*};
}
flat_scalar!(f32, f64, i8, u8, i16, u16, i32, u32, i64, u64, usize);

macro_rules! flat_vec {
    ($($T:ident, $S:ident, $N:expr);*) => {$(
        impl Flat for $T {
            type S = $S;
            const N: usize = $N;
            #[inline] fn build(l: &[$S]) -> Self { let mut a = [<$S as Sc>::zero(); $N]; a.copy_from_slice(&l[..$N]); <$T>::from_array(a) }
            #[inline] fn put(&self, out: &mut [$S]) { out[..$N].copy_from_slice(&self.to_array()) }
        }
    )*};
}
flat_vec!(Vec2, f32, 2; Vec3, f32, 3; Vec4, f32, 4; DVec2, f64, 2; DVec3, f64, 3; DVec4, f64, 4;
    I8Vec2, i8, 2; I8Vec3, i8, 3; I8Vec4, i8, 4; U8Vec2, u8, 2; U8Vec3, u8, 3; U8Vec4, u8, 4;
    I16Vec2, i16, 2; I16Vec3, i16, 3; I16Vec4, i16, 4; U16Vec2, u16, 2; U16Vec3, u16, 3; U16Vec4, u16, 4;
    IVec2, i32, 2; IVec3, i32, 3; IVec4, i32, 4; UVec2, u32, 2; UVec3, u32, 3; UVec4, u32, 4;
    I64Vec2, i64, 2; I64Vec3, i64, 3; I64Vec4, i64, 4; U64Vec2, u64, 2; U64Vec3, u64, 3; U64Vec4, u64, 4;
    USizeVec2, usize, 2; USizeVec3, usize, 3; USizeVec4, usize, 4;
    Quat, f32, 4; DQuat, f64, 4);

/// Vec3A is always built with a *poisoned* hidden fourth lane (through the public from_vec4), so
/// that every check that constructs a Vec3A also notices an operation that lets the lane leak
/// (C08 states that it never may). Under scalar-math from_vec4 simply truncates.
const POISON: [u32; 4] = [0x7FC0_0000, 0x7149_F2CA, 0xF149_F2CA, 0x7F80_0001]; // NaN, 1e30, -1e30, sNaN
impl Flat for Vec3A {
    type S = f32;
    const N: usize = 3;
    #[inline]
    fn build(l: &[f32]) -> Self {
        let k = (l[0].to_bits() ^ l[1].to_bits().rotate_left(7) ^ l[2].to_bits().rotate_left(13)).wrapping_mul(0x9E37_79B1) >> 30;
        Vec3A::from_vec4(Vec4::new(l[0], l[1], l[2], f32::from_bits(POISON[k as usize])))
    }
    #[inline]
    fn put(&self, out: &mut [f32]) {
        out[..3].copy_from_slice(&self.to_array())
    }
}

impl<T: Flat + Copy, const K: usize> Flat for [T; K] {
    type S = T::S;
    const N: usize = K * T::N;
    fn build(l: &[T::S]) -> Self {
        core::array::from_fn(|i| T::build(&l[i * T::N..(i + 1) * T::N]))
    }
    fn put(&self, out: &mut [T::S]) {
        for (i, e) in self.iter().enumerate() {
            e.put(&mut out[i * T::N..(i + 1) * T::N]);
        }
    }
}
impl<A: Flat, B: Flat<S = A::S>> Flat for (A, B) {
    type S = A::S;
    const N: usize = A::N + B::N;
    fn build(l: &[A::S]) -> Self {
        (A::build(&l[..A::N]), B::build(&l[A::N..]))
    }
    fn put(&self, out: &mut [A::S]) {
        self.0.put(&mut out[..A::N]);
        self.1.put(&mut out[A::N..]);
    }
}
impl<A: Flat, B: Flat<S = A::S>, C: Flat<S = A::S>> Flat for (A, B, C) {
    type S = A::S;
    const N: usize = A::N + B::N + C::N;
    fn build(l: &[A::S]) -> Self {
        (A::build(&l[..A::N]), B::build(&l[A::N..A::N + B::N]), C::build(&l[A::N + B::N..]))
    }
    fn put(&self, out: &mut [A::S]) {
        self.0.put(&mut out[..A::N]);
        self.1.put(&mut out[A::N..A::N + B::N]);
        self.2.put(&mut out[A::N + B::N..]);
    }
}
impl<A: Flat, B: Flat<S = A::S>, C: Flat<S = A::S>, D: Flat<S = A::S>> Flat for (A, B, C, D) {
    type S = A::S;
    const N: usize = A::N + B::N + C::N + D::N;
    fn build(l: &[A::S]) -> Self {
        let (a, b, c) = (A::N, A::N + B::N, A::N + B::N + C::N);
        (A::build(&l[..a]), B::build(&l[a..b]), C::build(&l[b..c]), D::build(&l[c..]))
    }
    fn put(&self, out: &mut [A::S]) {
        let (a, b, c) = (A::N, A::N + B::N, A::N + B::N + C::N);
        self.0.put(&mut out[..a]);
        self.1.put(&mut out[a..b]);
        self.2.put(&mut out[b..c]);
        self.3.put(&mut out[c..]);
    }
}

/// masks as lists of booleans
pub trait Mask: Sized + Copy {
    const N: usize;
    fn build(b: &[bool]) -> Self;
    fn bools(&self) -> Vec<bool>;
}
macro_rules! mask2 {
    ($($T:ident, $N:expr, ($($i:tt),*));*) => {$(
        impl Mask for $T {
            const N: usize = $N;
            fn build(b: &[bool]) -> Self { <$T>::new($(b[$i]),*) }
            fn bools(&self) -> Vec<bool> { (0..$N).map(|i| self.test(i)).collect() }
        }
    )*};
}
mask2!(BVec2, 2, (0, 1); BVec3, 3, (0, 1, 2); BVec4, 4, (0, 1, 2, 3); BVec3A, 3, (0, 1, 2); BVec4A, 4, (0, 1, 2, 3));

pub fn bits_eq<S: Sc>(a: &[S], b: &[S]) -> bool {
    a.len() == b.len() && a.iter().zip(b).all(|(x, y)| x.bits() == y.bits())
}
pub fn show<S: Sc>(a: &[S]) -> String {
    let mut s = String::from("[");
    for (i, x) in a.iter().enumerate() {
        if i > 0 {
            s.push_str(", ");
        }
        s.push_str(&format!("{:?}/0x{:x}", x, x.bits()));
    }
    s.push(']');
    s
}
