//! Operator forms: every `core::ops` trait impl of the tree under test (inventory generated from the
//! rustdoc JSON) is tied to the canonical by-value form of the same operator: reference forms,
//! assign forms, scalar operands (= the splatted vector), Neg/Not on references, Sum/Product over
//! references. The canonical forms themselves are decided by the property's own oracle; this table
//! makes sure no *form* of an operator can differ from it unnoticed.
use crate::catch;
use crate::rep::{Acc, Report};
use crate::shapes::Shapes;
use glam::*;

/// operand values per type (the C18 shape alphabets for the float families, boundary values for integers)
pub trait Ov: Sized + Clone + std::fmt::Debug {
    fn ov() -> Vec<Self>;
}
macro_rules! ov_shapes { ($($T:ty),*) => {$( impl Ov for $T { fn ov() -> Vec<$T> { <$T as Shapes>::shapes() } } )*}; }
ov_shapes!(f32, f64, bool, Vec2, Vec3, Vec3A, Vec4, DVec2, DVec3, DVec4, Quat, DQuat, Mat2, Mat3, Mat3A, Mat4, DMat2, DMat3, DMat4, Affine2, Affine3A, DAffine2, DAffine3,
    BVec2, BVec3, BVec4, BVec3A, BVec4A);
macro_rules! ov_int {
    ($(($S:ident, $V2:ident, $V3:ident, $V4:ident)),*) => {$(
        impl Ov for $S {
            fn ov() -> Vec<$S> {
                let b = <$S>::BITS as i128;
                let mut v: Vec<i128> = vec![0, 1, 2, 3, 7, 100, -1, -2, -7, <$S>::MIN as i128, <$S>::MAX as i128, <$S>::MAX as i128 - 1, <$S>::MIN as i128 + 1, b - 1, b, b + 1, (<$S>::MAX as i128) / 2 + 1];
                v.retain(|x| *x >= <$S>::MIN as i128 && *x <= <$S>::MAX as i128);
                v.sort();
                v.dedup();
                v.into_iter().map(|x| x as $S).collect()
            }
        }
        ov_int!(@v $S, $V2, 2); ov_int!(@v $S, $V3, 3); ov_int!(@v $S, $V4, 4);
    )*};
    (@v $S:ident, $V:ident, $N:expr) => {
        impl Ov for $V {
            fn ov() -> Vec<$V> {
                let s = <$S as Ov>::ov();
                let n = s.len();
                // every scalar value alone in every lane over a background, plus rotations of the list
                let mut out = vec![];
                for k in 0..n {
                    out.push(<$V>::from_array(core::array::from_fn(|i| s[(k + i * 5) % n])));
                }
                for lane in 0..$N {
                    for k in [0usize, n / 2, n - 1] {
                        out.push(<$V>::from_array(core::array::from_fn(|i| if i == lane { s[k] } else { 3 as $S })));
                    }
                }
                out
            }
        }
    };
}
ov_int!((i8, I8Vec2, I8Vec3, I8Vec4), (u8, U8Vec2, U8Vec3, U8Vec4), (i16, I16Vec2, I16Vec3, I16Vec4), (u16, U16Vec2, U16Vec3, U16Vec4), (i32, IVec2, IVec3, IVec4), (u32, UVec2, UVec3, UVec4),
    (i64, I64Vec2, I64Vec3, I64Vec4), (u64, U64Vec2, U64Vec3, U64Vec4), (usize, USizeVec2, USizeVec3, USizeVec4));

#[inline]
fn form_cmp<A: std::fmt::Debug, B: std::fmt::Debug>(acc: &mut Acc, site: &str, a: &A, b: &B, got: &Result<String, String>, want: &Result<String, String>) {
    let h = match got {
        Ok(s) => s.bytes().fold(0xcbf29ce484222325u64, |h, c| (h ^ c as u64).wrapping_mul(0x100000001b3)),
        Err(_) => 1,
    };
    acc.eval(true, h);
    let same = match (got, want) {
        (Ok(x), Ok(y)) => x == y,
        (Err(_), Err(_)) => true,
        _ => false,
    };
    if !same {
        acc.fail(site, format!("a={:?} b={:?}: this form gives {:?}, the by-value form gives {:?}", a, b, got, want));
    }
}

include!("generated/opforms_table.rs");

/// run one family's table as a space: one case per operator form, each over all operand pairs
pub fn run(rep: &mut Report, family: &str, table: &'static [(&'static str, fn(&mut Acc))]) {
    rep.sweep(&format!("operator forms/{family}/{} impl forms from the inventory x operand pairs", table.len()), table.len() as u64, |idx, acc| {
        (table[idx as usize].1)(acc);
    });
}
