//! `Shapes`: the shape alphabets of C18's totality check — per argument type a small list of
//! values covering zero, -zero, subnormal, tiny (squares underflow to zero or to a subnormal), ordinary, huge (squares
//! overflow), +-inf lanes, NaN lanes and mixtures.
use glam::*;

pub trait Shapes: Sized + Clone + std::fmt::Debug {
    fn shapes() -> Vec<Self>;
}

impl Shapes for f32 {
    fn shapes() -> Vec<f32> {
        vec![0.0, -0.0, 1.0, -1.0, 0.5, 2.5, 1e-20, 1e20, -1e20, f32::MAX, f32::MIN_POSITIVE, f32::from_bits(1), f32::INFINITY, f32::NEG_INFINITY, f32::NAN, std::f32::consts::PI]
    }
}
impl Shapes for f64 {
    fn shapes() -> Vec<f64> {
        vec![0.0, -0.0, 1.0, -1.0, 0.5, 2.5, 1e-200, 1e200, -1e200, f64::MAX, f64::MIN_POSITIVE, f64::from_bits(1), f64::INFINITY, f64::NEG_INFINITY, f64::NAN, std::f64::consts::PI]
    }
}
impl Shapes for usize {
    fn shapes() -> Vec<usize> {
        vec![0, 1]
    }
}
impl Shapes for bool {
    fn shapes() -> Vec<bool> {
        vec![false, true]
    }
}
impl Shapes for i32 {
    fn shapes() -> Vec<i32> {
        vec![-2, -1, 0, 1, 2, 7, i32::MAX, i32::MIN]
    }
}
impl Shapes for u32 {
    fn shapes() -> Vec<u32> {
        vec![0, 1, 2, 31, u32::MAX]
    }
}

macro_rules! vec_shapes {
    ($T:ident, $S:ident, $N:expr, $tiny:expr, $huge:expr) => {
        impl Shapes for $T {
            fn shapes() -> Vec<$T> {
                let l = |a: [$S; 4]| -> $T { let mut x = [0.0 as $S; $N]; x.copy_from_slice(&a[..$N]); <$T>::from_array(x) };
                let (t, h): ($S, $S) = ($tiny, $huge);
                vec![
                    l([0.0; 4]),
                    l([-0.0; 4]),
                    l([<$S>::from_bits(1), 0.0, <$S>::from_bits(3), <$S>::MIN_POSITIVE]),
                    l([t, t, t, t]),
                    l([t, 0.0, 0.0, 0.0]),
                    l([1.0, 2.0, 3.0, 4.0]),
                    l([-0.5, 0.25, 2.0, -3.0]),
                    l([-1.0, -2.0, -3.0, -4.0]),
                    l([1.0, 2.0, 3.000_001, 4.0]),
                    l([1.0, 0.0, 0.0, 0.0]),
                    l([0.0, 0.0, 1.0, 0.0]),
                    l([0.5, 0.5, 0.5, 0.5]),
                    l([h, h, -h, h]),
                    l([<$S>::MAX, <$S>::MAX, <$S>::MAX, <$S>::MAX]),
                    l([<$S>::INFINITY, 1.0, 2.0, 3.0]),
                    l([1.0, <$S>::NEG_INFINITY, <$S>::INFINITY, 0.0]),
                    l([<$S>::NAN, 1.0, 2.0, 3.0]),
                    l([<$S>::NAN; 4]),
                    l([0.0, <$S>::INFINITY, <$S>::NAN, 1.0]),
                    l([t, h, -1.0, 0.0]),
                    // an exactly opposite pair whose squared length is a non-zero subnormal
                    l([<$S>::MIN_POSITIVE.sqrt() / 32.0, 0.0, 0.0, 0.0]),
                    l([-(<$S>::MIN_POSITIVE.sqrt() / 32.0), 0.0, 0.0, 0.0]),
                ]
            }
        }
    };
}
vec_shapes!(Vec2, f32, 2, 1e-20, 1e20);
vec_shapes!(Vec3, f32, 3, 1e-20, 1e20);
vec_shapes!(Vec3A, f32, 3, 1e-20, 1e20);
vec_shapes!(Vec4, f32, 4, 1e-20, 1e20);
vec_shapes!(DVec2, f64, 2, 1e-200, 1e200);
vec_shapes!(DVec3, f64, 3, 1e-200, 1e200);
vec_shapes!(DVec4, f64, 4, 1e-200, 1e200);

macro_rules! quat_shapes {
    ($T:ident, $S:ident, $tiny:expr, $huge:expr) => {
        impl Shapes for $T {
            fn shapes() -> Vec<$T> {
                let q = |x: $S, y: $S, z: $S, w: $S| <$T>::from_xyzw(x, y, z, w);
                vec![
                    q(0.0, 0.0, 0.0, 1.0),
                    q(0.0, 0.0, 0.0, 0.0),
                    q(0.5, -0.5, 0.5, 0.5),
                    q(-0.5, 0.5, -0.5, -0.5),
                    q(1.0, 2.0, 3.0, 4.0),
                    q(<$S>::NAN, 0.0, 0.0, 1.0),
                    q(<$S>::INFINITY, 0.0, 0.0, 1.0),
                    q($tiny, $tiny, $tiny, $tiny),
                    q($huge, 0.0, $huge, 0.0),
                    q(1e-4, 0.0, 0.0, 1.0),
                    q(0.0, 1.0, 0.0, 0.0),
                    q(0.0, 0.0, 0.0, -1.0),
                ]
            }
        }
    };
}
quat_shapes!(Quat, f32, 1e-20, 1e20);
quat_shapes!(DQuat, f64, 1e-200, 1e200);

macro_rules! mat_shapes {
    ($T:ident, $S:ident, $N:expr, $tiny:expr, $huge:expr) => {
        impl Shapes for $T {
            fn shapes() -> Vec<$T> {
                const NN: usize = $N * $N;
                let f = |g: &dyn Fn(usize, usize) -> $S| -> $T { let mut a = [0.0 as $S; NN]; for c in 0..$N { for r in 0..$N { a[c * $N + r] = g(r, c); } } <$T>::from_cols_array(&a) };
                let (t, h): ($S, $S) = ($tiny, $huge);
                vec![
                    f(&|_, _| 0.0),
                    f(&|r, c| if r == c { 1.0 } else { 0.0 }),
                    f(&|r, c| ((r + 1) * (c + 1)) as $S), // rank 1
                    f(&|r, c| if (r + 1) % $N == c { 1.0 } else { 0.0 }), // permutation (rotation-like)
                    f(&|r, c| if r == c { [2.0, 0.5, -3.0, 1.0][r] } else { 0.0 }),
                    f(&|r, c| (r as $S) * 1.5 - (c as $S) * 0.75 + if r == c { 2.0 } else { 0.0 }),
                    f(&|r, c| if r == 0 && c == 0 { <$S>::NAN } else if r == c { 1.0 } else { 0.0 }),
                    f(&|_, _| <$S>::NAN),
                    f(&|r, c| if r == 1 && c == 0 { <$S>::INFINITY } else if r == c { 1.0 } else { 0.0 }),
                    f(&|r, c| if r == c { t } else { 0.0 }),
                    f(&|r, c| if r == c { h } else { h * 0.5 }),
                    f(&|r, c| if r == c { 1.0 } else if r == $N - 1 { 0.0 } else if c == $N - 1 { 3.0 } else { 0.0 }), // affine-like (translation)
                ]
            }
        }
    };
}
mat_shapes!(Mat2, f32, 2, 1e-20, 1e20);
mat_shapes!(Mat3, f32, 3, 1e-20, 1e20);
mat_shapes!(Mat3A, f32, 3, 1e-20, 1e20);
mat_shapes!(Mat4, f32, 4, 1e-20, 1e20);
mat_shapes!(DMat2, f64, 2, 1e-200, 1e200);
mat_shapes!(DMat3, f64, 3, 1e-200, 1e200);
mat_shapes!(DMat4, f64, 4, 1e-200, 1e200);

macro_rules! affine_shapes {
    ($T:ident, $M:ident, $V:ident, $L:expr) => {
        impl Shapes for $T {
            fn shapes() -> Vec<$T> {
                let ms = <$M as Shapes>::shapes();
                let vs = <$V as Shapes>::shapes();
                let mut out = vec![];
                for (i, m) in ms.iter().enumerate() {
                    let t = vs[(i * 3 + 5) % vs.len()].clone();
                    let mut a = [0.0; $L];
                    let mc = m.to_cols_array();
                    a[..mc.len()].copy_from_slice(&mc);
                    a[mc.len()..].copy_from_slice(&t.to_array());
                    out.push(<$T>::from_cols_array(&a));
                }
                out
            }
        }
    };
}
affine_shapes!(Affine2, Mat2, Vec2, 6);
affine_shapes!(Affine3A, Mat3, Vec3, 12);
affine_shapes!(DAffine2, DMat2, DVec2, 6);
affine_shapes!(DAffine3, DMat3, DVec3, 12);

macro_rules! mask_shapes {
    ($($T:ident, $N:expr, ($($i:tt),*));*) => {$(
        impl Shapes for $T { fn shapes() -> Vec<$T> { (0u32..(1 << $N)).map(|m| <$T>::new($(m >> $i & 1 == 1),*)).collect() } }
    )*};
}
mask_shapes!(BVec2, 2, (0, 1); BVec3, 3, (0, 1, 2); BVec4, 4, (0, 1, 2, 3); BVec3A, 3, (0, 1, 2); BVec4A, 4, (0, 1, 2, 3));

impl Shapes for EulerRot {
    fn shapes() -> Vec<EulerRot> {
        use EulerRot::*;
        vec![ZYX, ZXY, YXZ, YZX, XYZ, XZY, ZYZ, ZXZ, YXY, YZY, XYX, XZX, ZYXEx, ZXYEx, YXZEx, YZXEx, XYZEx, XZYEx, ZYZEx, ZXZEx, YXYEx, YZYEx, XYXEx, XZXEx]
    }
}

/// arrays: zeros, ordinary ramp, special mixture, huge
impl<T: Shapes + Copy, const K: usize> Shapes for [T; K] {
    fn shapes() -> Vec<[T; K]> {
        let s = T::shapes();
        let n = s.len();
        let pick = |start: usize, stride: usize| -> [T; K] { core::array::from_fn(|i| s[(start + i * stride) % n]) };
        vec![pick(0, 0), pick(2, 1), pick(5, 3), pick(7, 0), pick(n - 2, 1)]
    }
}
/// slices are passed as sufficiently long vectors (the short-slice panics are documented and
/// checked separately with exact-size buffers)
impl<T: Shapes + Copy> Shapes for Vec<T> {
    fn shapes() -> Vec<Vec<T>> {
        let s = T::shapes();
        let n = s.len();
        vec![(0..20).map(|i| s[(2 + i) % n]).collect(), (0..20).map(|i| s[(i * 5 + 6) % n]).collect(), (0..20).map(|_| s[n - 2]).collect()]
    }
}
