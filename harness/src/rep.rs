//! Report / evidence accumulation shared by every check binary.
//!
//! A check binary creates one `Report`, runs a number of named *spaces* through `sweep`
//! (indexed exhaustive enumeration, rayon-parallel) or records stateright searches, and
//! finally calls `finish()`, which writes a JSON fragment to
//! `/verif/work/<id>.<cfg>.<tier>.json`, replay files to `/verif/replays/` and prints
//! `VIOLATION ...` / `KNOWN-FINDING: ...` lines. The driver (`/verif/check`) merges the
//! fragments of all configurations into `/verif/evidence/<id>.json`.

use rayon::prelude::*;
use serde_json::{json, Value};
use std::collections::BTreeMap;
use std::collections::HashSet;
use std::sync::Mutex;
use std::time::Instant;

pub const VERIF_DIR: &str = "/verif";

#[derive(Clone, Debug)]
pub struct Args {
    pub tier: String,
    pub cfg: String,
    /// replay filter: only this (space, index) is executed
    pub replay: Option<(String, u64)>,
    pub verbose: bool,
    /// optional substring filter on space names (debugging aid)
    pub only: Option<String>,
}

impl Args {
    pub fn parse() -> Args {
        let mut a = Args {
            tier: std::env::var("VERIF_TIER").unwrap_or_else(|_| "quick".into()),
            cfg: "sse2".into(),
            replay: None,
            verbose: false,
            only: None,
        };
        let v: Vec<String> = std::env::args().collect();
        let mut i = 1;
        while i < v.len() {
            match v[i].as_str() {
                "--tier" => {
                    a.tier = v[i + 1].clone();
                    i += 1;
                }
                "--cfg" => {
                    a.cfg = v[i + 1].clone();
                    i += 1;
                }
                "--replay" => {
                    a.replay = Some((v[i + 1].clone(), v[i + 2].parse().expect("index")));
                    i += 2;
                }
                "--only" => {
                    a.only = Some(v[i + 1].clone());
                    i += 1;
                }
                "-v" => a.verbose = true,
                x => panic!("unknown argument {x}"),
            }
            i += 1;
        }
        a
    }
    pub fn thorough(&self) -> bool {
        self.tier == "thorough"
    }
}

/// Per-thread accumulator handed to the case closure of `sweep`.
pub struct Acc {
    pub evals: u64,
    pub nontriv: u64,
    pub outcomes: HashSet<u64>,
    pub nviol: u64,
    /// lowest-index violation per site
    pub viol: BTreeMap<String, (u64, String)>,
    pub max_ratio: f64,
    pub branch: BTreeMap<&'static str, u64>,
    pub cur: u64,
}

const OUTCOME_CAP: usize = 1 << 14;

impl Acc {
    fn new() -> Acc {
        Acc {
            evals: 0,
            nontriv: 0,
            outcomes: HashSet::new(),
            nviol: 0,
            viol: BTreeMap::new(),
            max_ratio: 0.0,
            branch: BTreeMap::new(),
            cur: 0,
        }
    }
    /// one evaluation (impl + oracle); `nontrivial` per the space's rule; `outcome` = hash of
    /// the observed result (for the distinct-outcome vacuity guard)
    #[inline]
    pub fn eval(&mut self, nontrivial: bool, outcome: u64) {
        self.evals += 1;
        if nontrivial {
            self.nontriv += 1;
        }
        if self.outcomes.len() < OUTCOME_CAP {
            self.outcomes.insert(outcome);
        }
    }
    #[inline]
    pub fn ratio(&mut self, r: f64) {
        if r > self.max_ratio {
            self.max_ratio = r;
        }
    }
    #[inline]
    pub fn branch(&mut self, b: &'static str) {
        *self.branch.entry(b).or_insert(0) += 1;
    }
    /// record a violation at the current index; `site` identifies type+operation
    #[cold]
    pub fn fail(&mut self, site: &str, msg: String) {
        self.nviol += 1;
        let idx = self.cur;
        match self.viol.get(site) {
            Some((i, _)) if *i <= idx => {}
            _ => {
                self.viol.insert(site.to_string(), (idx, msg));
            }
        }
    }
    fn merge(mut self, o: Acc) -> Acc {
        self.evals += o.evals;
        self.nontriv += o.nontriv;
        for h in o.outcomes {
            if self.outcomes.len() < OUTCOME_CAP {
                self.outcomes.insert(h);
            }
        }
        self.nviol += o.nviol;
        for (k, (i, m)) in o.viol {
            match self.viol.get(&k) {
                Some((j, _)) if *j <= i => {}
                _ => {
                    self.viol.insert(k, (i, m));
                }
            }
        }
        if o.max_ratio > self.max_ratio {
            self.max_ratio = o.max_ratio;
        }
        for (k, v) in o.branch {
            *self.branch.entry(k).or_insert(0) += v;
        }
        self
    }
}

#[derive(Clone, Debug)]
pub struct Violation {
    pub space: String,
    pub index: u64,
    pub site: String,
    pub msg: String,
    pub count: u64,
}

pub struct Report {
    pub id: String,
    pub args: Args,
    pub level: String,
    start: Instant,
    pub spaces: Vec<Value>,
    pub violations: Vec<Violation>,
    pub samples: Vec<Value>,
    pub evals: u64,
    pub nontriv: u64,
    pub states: u64,
    pub transitions: u64,
    pub traces: u64,
    pub all_exhaustive: bool,
    pub warnings: Vec<String>,
    pub rules: Vec<String>,
    pub extra: BTreeMap<String, Value>,
}

pub fn silence_panics() {
    // panics raised inside `catch` (expected, part of the oracle) are silent; any other panic is a
    // machinery failure and is printed
    std::panic::set_hook(Box::new(|info| {
        let loc = info.location().map(|l| format!("{}:{}", l.file(), l.line())).unwrap_or_default();
        let msg = if let Some(s) = info.payload().downcast_ref::<&str>() { s.to_string() } else if let Some(s) = info.payload().downcast_ref::<String>() { s.clone() } else { "<panic>".into() };
        let under_test = crate::location_under_test(&loc);
        crate::LAST_PANIC.with(|l| *l.borrow_mut() = (loc, msg));
        // a panic raised by the code under test outside `catch` is reported as a violation of the case
        // being run (see `run_case`); only panics of the machinery itself are printed here
        if crate::QUIET.with(|q| q.get()) == 0 && !under_test {
            eprintln!("MACHINERY PANIC: {info}");
        }
    }));
}

/// one case of a space: a panic that escapes the check body is a violation when it was raised in the
/// code under test (no operation on the inputs the checks build may panic unless the check expects
/// it and wraps it in `catch`), and a machinery failure otherwise
pub fn run_case<F: Fn(u64, &mut Acc)>(f: &F, i: u64, acc: &mut Acc) {
    if let Err(e) = std::panic::catch_unwind(std::panic::AssertUnwindSafe(|| f(i, acc))) {
        let (loc, msg) = crate::LAST_PANIC.with(|l| l.borrow().clone());
        if crate::location_under_test(&loc) {
            let file = loc.rsplit("/src/").next().unwrap_or(&loc).to_string();
            acc.fail(&format!("panic in the code under test (src/{})", file.split(':').next().unwrap_or("")), format!("unexpected panic at {loc}: {msg}"));
        } else {
            std::panic::resume_unwind(e);
        }
    }
}

impl Report {
    pub fn new(id: &str, level: &str) -> Report {
        let args = Args::parse();
        Report {
            id: id.to_string(),
            args,
            level: level.to_string(),
            start: Instant::now(),
            spaces: vec![],
            violations: vec![],
            samples: vec![],
            evals: 0,
            nontriv: 0,
            states: 0,
            transitions: 0,
            traces: 0,
            all_exhaustive: true,
            warnings: vec![],
            rules: vec![],
            extra: BTreeMap::new(),
        }
    }
    pub fn thorough(&self) -> bool {
        self.args.thorough()
    }
    pub fn cfg(&self) -> &str {
        &self.args.cfg
    }
    pub fn rule(&mut self, r: &str) {
        self.rules.push(r.to_string());
    }
    pub fn sample(&mut self, v: Value) {
        if self.samples.len() < 24 {
            self.samples.push(v);
        }
    }
    /// is this space selected (always, unless a replay names another one)?
    pub fn wanted_pub(&self, name: &str) -> bool { self.wanted(name) }
    fn wanted(&self, name: &str) -> bool {
        if let Some((s, _)) = &self.args.replay {
            return s == name;
        }
        if let Some(o) = &self.args.only {
            return name.contains(o.as_str());
        }
        true
    }

    /// Exhaustively visit `0..size`; `f(index, acc)` evaluates implementation and oracle.
    pub fn sweep<F>(&mut self, name: &str, size: u64, f: F)
    where
        F: Fn(u64, &mut Acc) + Sync,
    {
        if !self.wanted(name) {
            return;
        }
        let t0 = Instant::now();
        let acc = if let Some((_, idx)) = &self.args.replay {
            // replay: single case, single thread, executed twice; observations must agree
            let mut a1 = Acc::new();
            a1.cur = *idx;
            run_case(&f, *idx, &mut a1);
            let mut a2 = Acc::new();
            a2.cur = *idx;
            run_case(&f, *idx, &mut a2);
            let s1: Vec<_> = a1.viol.iter().map(|(k, v)| (k.clone(), v.1.clone())).collect();
            let s2: Vec<_> = a2.viol.iter().map(|(k, v)| (k.clone(), v.1.clone())).collect();
            if s1 != s2 || a1.outcomes != a2.outcomes {
                eprintln!("MACHINERY: nondeterministic replay of {name}[{idx}]");
                std::process::exit(3);
            }
            println!("REPLAY {name}[{idx}]: evaluations={} violations={}", a1.evals, a1.nviol);
            for (k, v) in &a1.viol {
                println!("  {k}: {}", v.1);
            }
            a1
        } else if std::env::var_os("VERIF_SEQ").is_some() {
            // single-threaded (interpreted runs under Miri)
            let mut acc = Acc::new();
            for i in 0..size {
                acc.cur = i;
                run_case(&f, i, &mut acc);
            }
            acc
        } else {
            let chunk: u64 = (size / 4096).clamp(1, 1 << 16);
            let nchunks = size.div_ceil(chunk);
            (0..nchunks)
                .into_par_iter()
                .fold(Acc::new, |mut acc, c| {
                    let lo = c * chunk;
                    let hi = ((c + 1) * chunk).min(size);
                    for i in lo..hi {
                        acc.cur = i;
                        run_case(&f, i, &mut acc);
                    }
                    acc
                })
                .reduce(Acc::new, Acc::merge)
        };
        self.absorb(name, size, acc, true, t0);
    }

    /// Sequential variant (for cases using catch_unwind-heavy or non-Sync code)
    pub fn sweep_seq<F>(&mut self, name: &str, size: u64, mut f: F)
    where
        F: FnMut(u64, &mut Acc),
    {
        if !self.wanted(name) {
            return;
        }
        let t0 = Instant::now();
        let mut acc = Acc::new();
        if let Some((_, idx)) = &self.args.replay {
            acc.cur = *idx;
            f(*idx, &mut acc);
            println!("REPLAY {name}[{idx}]: evaluations={} violations={}", acc.evals, acc.nviol);
            for (k, v) in &acc.viol {
                println!("  {k}: {}", v.1);
            }
        } else {
            for i in 0..size {
                acc.cur = i;
                f(i, &mut acc);
            }
        }
        self.absorb(name, size, acc, true, t0);
    }

    fn absorb(&mut self, name: &str, size: u64, acc: Acc, exhaustive: bool, t0: Instant) {
        let replaying = self.args.replay.is_some();
        if !replaying {
            if acc.evals == 0 {
                self.warnings.push(format!("space {name}: no evaluations"));
            } else if acc.outcomes.len() <= 1 && acc.evals > 1 {
                self.warnings.push(format!("space {name}: all {} evaluations had one outcome", acc.evals));
            }
        }
        self.evals += acc.evals;
        self.nontriv += acc.nontriv;
        self.all_exhaustive &= exhaustive;
        let mut sp = json!({
            "space": name, "size": size, "evaluations": acc.evals,
            "distinct_nontrivial": acc.nontriv,
            "distinct_outcomes": if acc.outcomes.len() >= OUTCOME_CAP { json!(format!(">={}", OUTCOME_CAP)) } else { json!(acc.outcomes.len()) },
            "exhaustive": exhaustive, "violations": acc.nviol,
            "wall_s": (t0.elapsed().as_secs_f64()*1000.0).round()/1000.0,
        });
        if acc.max_ratio > 0.0 {
            sp["max_observed_over_bound"] = json!((acc.max_ratio * 1e4).round() / 1e4);
        }
        if !acc.branch.is_empty() {
            sp["oracle_branches"] = json!(acc.branch);
            for (k, v) in &acc.branch {
                if *v == 0 {
                    self.warnings.push(format!("space {name}: oracle branch {k} never taken"));
                }
            }
        }
        if self.args.verbose {
            eprintln!("{}", sp);
        }
        self.spaces.push(sp);
        for (site, (idx, msg)) in acc.viol {
            self.violations.push(Violation { space: name.to_string(), index: idx, site, msg, count: acc.nviol });
        }
    }

    /// record a stateright (or hand-rolled) explicit-state search
    pub fn search(&mut self, name: &str, states: u64, unique: u64, max_depth: u64, fixpoint: bool, wall: f64) {
        self.states += unique;
        self.transitions += states;
        self.traces += states;
        self.spaces.push(json!({
            "space": name, "engine": "stateright-bfs", "generated_states(=real-code transitions)": states,
            "unique_states": unique, "max_depth": max_depth, "to_fixpoint": fixpoint,
            "wall_s": (wall*1000.0).round()/1000.0,
        }));
        if unique <= 1 {
            self.warnings.push(format!("search {name}: only {unique} unique states"));
        }
    }

    pub fn violation(&mut self, space: &str, index: u64, site: &str, msg: String) {
        self.violations.push(Violation { space: space.into(), index, site: site.into(), msg, count: 1 });
    }

    /// Write the fragment and replay files, print verdict lines, return the exit code.
    pub fn finish(mut self) -> i32 {
        if self.args.replay.is_some() {
            return if self.violations.is_empty() { 0 } else { 1 };
        }
        let known = load_known(&self.id);
        let mut out_viol = vec![];
        let mut exit = 0;
        std::fs::create_dir_all(format!("{VERIF_DIR}/replays")).ok();
        std::fs::create_dir_all(format!("{VERIF_DIR}/work")).ok();
        self.violations.sort_by(|a, b| (a.site.clone(), a.index).cmp(&(b.site.clone(), b.index)));
        let mut n_new = 0;
        for (n, v) in self.violations.iter().enumerate() {
            let is_known = known.iter().any(|k| v.site.contains(k.as_str()) || k == "*");
            let path = format!("{VERIF_DIR}/replays/{}-{}-{}.json", self.id, self.args.cfg, n);
            let rj = json!({"check": self.id, "config": self.args.cfg, "tier": self.args.tier,
                "space": v.space, "index": v.index, "site": v.site, "detail": v.msg});
            if is_known {
                println!("KNOWN-FINDING: property={} {} [{}] {}", self.id, v.site, self.args.cfg, v.msg);
            } else {
                if n_new < 40 {
                    std::fs::write(&path, serde_json::to_string_pretty(&rj).unwrap()).ok();
                    println!("VIOLATION property={} replay={}", self.id, path);
                    println!("  site={} cfg={} space={} index={} : {}", v.site, self.args.cfg, v.space, v.index, v.msg);
                }
                n_new += 1;
                exit = 1;
            }
            out_viol.push(json!({"site": v.site, "space": v.space, "index": v.index, "detail": v.msg, "known": is_known}));
        }
        for w in &self.warnings {
            eprintln!("WARNING[{} {}]: {}", self.id, self.args.cfg, w);
        }
        let frag = json!({
            "property_id": self.id, "cfg": self.args.cfg, "tier": self.args.tier, "level": self.level,
            "evaluations": self.evals, "distinct_nontrivial": self.nontriv,
            "states": self.states, "transitions": self.transitions, "traces_validated_against_impl": self.traces,
            "exhaustive": self.all_exhaustive,
            "spaces": self.spaces, "samples": self.samples, "rules": self.rules,
            "violations": out_viol, "new_violations": n_new, "warnings": self.warnings, "extra": self.extra,
            "wall_s": self.start.elapsed().as_secs_f64(),
        });
        let p = format!("{VERIF_DIR}/work/{}.{}.{}.json", self.id, self.args.cfg, self.args.tier);
        std::fs::write(&p, serde_json::to_string_pretty(&frag).unwrap()).expect("write fragment");
        exit
    }
}

/// known_findings.txt: lines `finding: property=<id> site=<substring> ...`
fn load_known(id: &str) -> Vec<String> {
    let mut v = vec![];
    if let Ok(s) = std::fs::read_to_string(format!("{VERIF_DIR}/known_findings.txt")) {
        for l in s.lines() {
            let l = l.trim();
            if !l.starts_with("finding:") {
                continue;
            }
            let mut pid = None;
            let mut site = None;
            for tok in l.split_whitespace() {
                if let Some(x) = tok.strip_prefix("property=") {
                    pid = Some(x.to_string());
                }
                if let Some(x) = tok.strip_prefix("site=") {
                    site = Some(x.to_string());
                }
            }
            if pid.as_deref() == Some(id) {
                if let Some(s) = site {
                    v.push(s);
                }
            }
        }
    }
    v
}

/// A global sample collector usable from parallel closures.
pub struct Samples(pub Mutex<Vec<Value>>);
impl Samples {
    pub const fn new() -> Samples {
        Samples(Mutex::new(Vec::new()))
    }
    pub fn push(&self, v: Value) {
        let mut g = self.0.lock().unwrap();
        if g.len() < 8 {
            g.push(v);
        }
    }
}

#[inline]
pub fn h64(x: u64) -> u64 {
    // splitmix finaliser: cheap outcome hash
    let mut z = x.wrapping_add(0x9E3779B97F4A7C15);
    z = (z ^ (z >> 30)).wrapping_mul(0xBF58476D1CE4E5B9);
    z = (z ^ (z >> 27)).wrapping_mul(0x94D049BB133111EB);
    z ^ (z >> 31)
}
#[inline]
pub fn hmix(a: u64, b: u64) -> u64 {
    h64(a ^ h64(b).rotate_left(17))
}
