//! Deterministic input families shared by the numeric checks (DESIGN §2.4): unit rotations `ROT`
//! and directions `DIR`. Everything is a closed-form table; no randomness.
use crate::refm::*;

/// all non-zero integer vectors in {-k..k}^3 (342 for k = 3)
pub fn int_dirs(k: i32) -> Vec<[f64; 3]> {
    let mut v = vec![];
    for x in -k..=k {
        for y in -k..=k {
            for z in -k..=k {
                if (x, y, z) != (0, 0, 0) {
                    v.push([x as f64, y as f64, z as f64]);
                }
            }
        }
    }
    v
}
pub fn unit_dirs(k: i32) -> Vec<[f64; 3]> {
    int_dirs(k)
        .into_iter()
        .map(|d| {
            let n = norm(&d);
            [d[0] / n, d[1] / n, d[2] / n]
        })
        .collect()
}

fn push_unique(v: &mut Vec<[f64; 4]>, q: [f64; 4]) {
    let n = norm(&q);
    let q = [q[0] / n, q[1] / n, q[2] / n, q[3] / n];
    if !v.iter().any(|p| (0..4).all(|i| (p[i] - q[i]).abs() < 1e-13)) {
        v.push(q);
    }
}

/// matrix -> quaternion branch deciding quantities of the rotation matrix
fn branch_fns(m: &Mx) -> [f64; 3] {
    [m.at(2, 2), m.at(1, 1) - m.at(0, 0), m.at(1, 1) + m.at(0, 0)]
}

/// unit quaternions [x, y, z, w] in f64. `level` 0: ~700 (quick), 1: ~3500 (thorough)
pub fn rot_family(level: u32) -> Vec<[f64; 4]> {
    let mut v: Vec<[f64; 4]> = vec![];
    // 1. normalised integer quaternions
    let k: i32 = if level == 0 { 1 } else { 3 };
    for x in -k..=k {
        for y in -k..=k {
            for z in -k..=k {
                for w in -k..=k {
                    if (x, y, z, w) != (0, 0, 0, 0) {
                        push_unique(&mut v, [x as f64, y as f64, z as f64, w as f64]);
                    }
                }
            }
        }
    }
    // 2. binary octahedral group (the (+-a+-b)/sqrt2 elements; the rest is in family 1)
    for i in 0..4 {
        for j in i + 1..4 {
            for s in 0..4 {
                let mut q = [0.0; 4];
                q[i] = if s & 1 == 0 { 1.0 } else { -1.0 };
                q[j] = if s & 2 == 0 { 1.0 } else { -1.0 };
                push_unique(&mut v, q);
            }
        }
    }
    // 3. binary icosahedral group: even permutations of (+-phi, +-1, +-1/phi, 0)/2
    let phi = (1.0 + 5f64.sqrt()) / 2.0;
    let base = [phi, 1.0, 1.0 / phi, 0.0];
    let even_perms: [[usize; 4]; 12] = [
        [0, 1, 2, 3], [0, 2, 3, 1], [0, 3, 1, 2], [1, 0, 3, 2], [1, 2, 0, 3], [1, 3, 2, 0],
        [2, 0, 1, 3], [2, 1, 3, 0], [2, 3, 0, 1], [3, 0, 2, 1], [3, 1, 0, 2], [3, 2, 1, 0],
    ];
    for p in even_perms {
        for s in 0..8 {
            let mut q = [0.0; 4];
            let mut bit = 0;
            for i in 0..4 {
                let val = base[p[i]];
                if val != 0.0 {
                    q[i] = if s >> bit & 1 == 0 { val } else { -val };
                    bit += 1;
                }
            }
            push_unique(&mut v, q);
        }
    }
    // 4. axis-angle families near 0 and pi (and exactly pi)
    let axes = unit_dirs(if level == 0 { 1 } else { 2 });
    let pi = std::f64::consts::PI;
    for a in &axes {
        for th in [1e-4, 1e-3, 1e-2, pi - 1e-2, pi - 1e-3, pi - 1e-4, pi, 0.5, 2.0] {
            push_unique(&mut v, q_axis_angle(a, th));
        }
    }
    // 4b. still closer to the identity on either sheet (w near +1 and near -1): where small-rotation
    //     shortcuts live
    for a in axes.iter().step_by(3) {
        for th in [1e-6, 1e-5, 3e-5, 2.0 * pi - 1e-5, 2.0 * pi - 1e-3] {
            push_unique(&mut v, q_axis_angle(a, th));
        }
    }
    // 4c. axes with one component much smaller than the others (dominant-component selection in the
    //     matrix -> quaternion branches), at large angles and around the half-turn
    for base in [[0.01, 0.9, 0.43], [0.9, 0.01, -0.43], [0.43, -0.9, 0.01], [-0.01, 0.43, 0.9], [0.7, 0.71, 1e-3], [1e-3, 0.02, 1.0]] {
        let a = crate::refm::normalize(&base);
        for th in [pi, pi - 1e-3, pi + 1e-3, 2.5, 3.0, 1.0] {
            push_unique(&mut v, q_axis_angle(&[a[0], a[1], a[2]], th));
        }
    }
    // 5. rotations on and on either side of each matrix->quaternion branch boundary
    let baxes = unit_dirs(1);
    for a in baxes.iter().step_by(if level == 0 { 3 } else { 1 }) {
        for f in 0..3 {
            let g = |th: f64| branch_fns(&rodrigues(a, th))[f];
            let steps = 360;
            for s in 0..steps {
                let (t0, t1) = (2.0 * pi * s as f64 / steps as f64, 2.0 * pi * (s + 1) as f64 / steps as f64);
                let (g0, g1) = (g(t0), g(t1));
                if (g0 == 0.0 && g1 != 0.0) || g0 * g1 < 0.0 {
                    let (mut lo, mut hi) = (t0, t1);
                    for _ in 0..60 {
                        let mid = 0.5 * (lo + hi);
                        if g(lo) * g(mid) <= 0.0 {
                            hi = mid;
                        } else {
                            lo = mid;
                        }
                    }
                    for d in [-1e-3, -1e-6, 0.0, 1e-6, 1e-3] {
                        push_unique(&mut v, q_axis_angle(a, lo + d));
                    }
                }
            }
        }
    }
    v
}

/// a cut of the rotation family for the quick tiers: every `len/n`-th member plus *all* members that sit
/// where implementations branch - within 1e-2 rad of the identity (either sheet) or of a half-turn, and
/// rotations about axes with one component much smaller than the others
pub fn rot_subset(level: u32, n: usize) -> Vec<[f64; 4]> {
    let rot = rot_family(level);
    let step = (rot.len() / n.max(1)).max(1);
    let mut sub: Vec<[f64; 4]> = rot.iter().step_by(step).copied().collect();
    for q in rot.iter() {
        let nq = (q[0] * q[0] + q[1] * q[1] + q[2] * q[2] + q[3] * q[3]).sqrt();
        let w = q[3].abs() / nq;
        let nv = (q[0] * q[0] + q[1] * q[1] + q[2] * q[2]).sqrt();
        let tiny_axis_component = nv > 0.0 && (0..3).any(|i| q[i] != 0.0 && (q[i] / nv).abs() < 0.03);
        if (w > 0.99998 || w < 5.1e-3 || tiny_axis_component) && !sub.contains(q) {
            sub.push(*q);
        }
    }
    sub
}

/// integer-valued quaternion grid {-k..k}^4 (index -> components)
pub fn int_quat(idx: u64, k: i64) -> [i64; 4] {
    let b = (2 * k + 1) as u64;
    let mut i = idx;
    let mut q = [0i64; 4];
    for c in 0..4 {
        q[c] = (i % b) as i64 - k;
        i /= b;
    }
    q
}
