pub mod fam;
pub mod flat;
pub mod lat;
pub mod mat;
pub mod refm;
pub mod mc;
pub mod rep;
pub mod shapes;

pub use rep::{h64, hmix, Acc, Report};

/// IEEE value equality used by C01/C07: -0 == +0, any NaN matches any NaN.
pub trait Flt: Copy + PartialEq + PartialOrd + std::fmt::Debug + Send + Sync + 'static {
    fn nan(self) -> bool;
    fn bits64(self) -> u64;
    fn f(self) -> f64;
}
impl Flt for f32 {
    #[inline]
    fn nan(self) -> bool {
        self.is_nan()
    }
    #[inline]
    fn bits64(self) -> u64 {
        self.to_bits() as u64
    }
    #[inline]
    fn f(self) -> f64 {
        self as f64
    }
}
impl Flt for f64 {
    #[inline]
    fn nan(self) -> bool {
        self.is_nan()
    }
    #[inline]
    fn bits64(self) -> u64 {
        self.to_bits()
    }
    #[inline]
    fn f(self) -> f64 {
        self
    }
}
#[inline]
pub fn ieee<S: Flt>(a: S, b: S) -> bool {
    a == b || (a.nan() && b.nan())
}

pub fn fmt_bits<S: Flt>(xs: &[S]) -> String {
    let mut s = String::from("[");
    for (i, x) in xs.iter().enumerate() {
        if i > 0 {
            s.push_str(", ");
        }
        s.push_str(&format!("{:?}(0x{:x})", x, x.bits64()));
    }
    s.push(']');
    s
}

thread_local! {
    pub static QUIET: std::cell::Cell<u32> = const { std::cell::Cell::new(0) };
}

thread_local! {
    /// location ("file:line") and message of the last panic on this thread, recorded by the hook
    pub static LAST_PANIC: std::cell::RefCell<(String, String)> = std::cell::RefCell::new((String::new(), String::new()));
}

/// does a panic location lie in the code under test (the glam sources of whatever tree is built)
/// rather than in the harness, its dependencies or the standard library?
pub fn location_under_test(loc: &str) -> bool {
    !loc.is_empty() && !loc.contains("harness/src") && !loc.contains("/.cargo/") && !loc.contains("/rustc/") && !loc.contains("/library/") && !loc.contains("/hdev/src")
}

/// run `f`, converting a panic into Err(message); panics inside are not printed
pub fn catch<R>(f: impl FnOnce() -> R) -> Result<R, String> {
    QUIET.with(|q| q.set(q.get() + 1));
    let r = std::panic::catch_unwind(std::panic::AssertUnwindSafe(f));
    QUIET.with(|q| q.set(q.get() - 1));
    match r {
        Ok(r) => Ok(r),
        Err(e) => {
            if let Some(s) = e.downcast_ref::<&str>() {
                Err(s.to_string())
            } else if let Some(s) = e.downcast_ref::<String>() {
                Err(s.clone())
            } else {
                Err("<panic>".into())
            }
        }
    }
}
pub mod opforms;
