//! Uniform view of glam's square matrix types for the numeric checks.
use crate::flat::*;
use crate::refm::Mx;
use glam::*;
use std::fmt::Debug;

pub trait MatT: Copy + Send + Sync + Debug + PartialEq + 'static {
    type S: Sc;
    type Col: Flat<S = Self::S> + Copy;
    const N: usize;
    const NAME: &'static str;
    fn from_f64(cols: &[f64]) -> Self;
    fn cols(&self) -> Vec<f64>;
    fn transpose_(&self) -> Self;
    fn determinant_(&self) -> f64;
    fn inverse_(&self) -> Self;
    fn mul_(&self, o: &Self) -> Self;
    fn mul_method(&self, o: &Self) -> Self;
    fn mul_assign_(&self, o: &Self) -> Self;
    fn mul_vec_(&self, v: Self::Col) -> Self::Col;
    fn mul_vec_method(&self, v: Self::Col) -> Self::Col;
    fn add_(&self, o: &Self) -> Self;
    fn sub_(&self, o: &Self) -> Self;
    fn add_method(&self, o: &Self) -> Self;
    fn sub_method(&self, o: &Self) -> Self;
    fn neg_(&self) -> Self;
    fn mul_scalar_(&self, s: f64) -> Self;
    fn scalar_mul_(&self, s: f64) -> Self;
    fn mul_scalar_method(&self, s: f64) -> Self;
    fn div_scalar_(&self, s: f64) -> Self;
    fn div_scalar_method(&self, s: f64) -> Self;
    fn sum_(v: &[Self]) -> Self;
    fn product_(v: &[Self]) -> Self;
    fn mx(&self) -> Mx {
        Mx::from_cols(Self::N, &self.cols())
    }
    fn eps() -> f64 {
        if <Self::S as Sc>::NAME == "f32" {
            crate::refm::EPS32
        } else {
            crate::refm::EPS64
        }
    }
}

macro_rules! mat_t {
    ($T:ident, $S:ident, $N:expr, $Col:ident, $mulv:ident, $mulm:ident, $addm:ident, $subm:ident) => {
        impl MatT for $T {
            type S = $S;
            type Col = $Col;
            const N: usize = $N;
            const NAME: &'static str = stringify!($T);
            fn from_f64(c: &[f64]) -> Self {
                let mut a = [0.0 as $S; $N * $N];
                for k in 0..$N * $N {
                    a[k] = c[k] as $S;
                }
                <$T>::from_cols_array(&a)
            }
            fn cols(&self) -> Vec<f64> {
                self.to_cols_array().iter().map(|x| *x as f64).collect()
            }
            fn transpose_(&self) -> Self { self.transpose() }
            fn determinant_(&self) -> f64 { self.determinant() as f64 }
            fn inverse_(&self) -> Self { self.inverse() }
            fn mul_(&self, o: &Self) -> Self { *self * *o }
            fn mul_method(&self, o: &Self) -> Self { self.$mulm(o) }
            fn mul_assign_(&self, o: &Self) -> Self { let mut t = *self; t *= *o; t }
            fn mul_vec_(&self, v: $Col) -> $Col { *self * v }
            fn mul_vec_method(&self, v: $Col) -> $Col { self.$mulv(v) }
            fn add_(&self, o: &Self) -> Self { *self + *o }
            fn sub_(&self, o: &Self) -> Self { *self - *o }
            fn add_method(&self, o: &Self) -> Self { self.$addm(o) }
            fn sub_method(&self, o: &Self) -> Self { self.$subm(o) }
            fn neg_(&self) -> Self { -*self }
            fn mul_scalar_(&self, s: f64) -> Self { *self * (s as $S) }
            fn scalar_mul_(&self, s: f64) -> Self { (s as $S) * *self }
            fn mul_scalar_method(&self, s: f64) -> Self { self.mul_scalar(s as $S) }
            fn div_scalar_(&self, s: f64) -> Self { *self / (s as $S) }
            fn div_scalar_method(&self, s: f64) -> Self { self.div_scalar(s as $S) }
            fn sum_(v: &[Self]) -> Self { v.iter().sum() }
            fn product_(v: &[Self]) -> Self { v.iter().product() }
        }
    };
}
mat_t!(Mat2, f32, 2, Vec2, mul_vec2, mul_mat2, add_mat2, sub_mat2);
mat_t!(Mat3, f32, 3, Vec3, mul_vec3, mul_mat3, add_mat3, sub_mat3);
mat_t!(Mat3A, f32, 3, Vec3A, mul_vec3a, mul_mat3, add_mat3, sub_mat3);
mat_t!(Mat4, f32, 4, Vec4, mul_vec4, mul_mat4, add_mat4, sub_mat4);
mat_t!(DMat2, f64, 2, DVec2, mul_vec2, mul_mat2, add_mat2, sub_mat2);
mat_t!(DMat3, f64, 3, DVec3, mul_vec3, mul_mat3, add_mat3, sub_mat3);
mat_t!(DMat4, f64, 4, DVec4, mul_vec4, mul_mat4, add_mat4, sub_mat4);

pub fn f64s<V: Flat>(v: &V) -> Vec<f64> {
    v.lanes().iter().map(|x| x.f()).collect()
}
pub fn build_f64<V: Flat>(l: &[f64]) -> V {
    let s: Vec<V::S> = l.iter().map(|x| <V::S as Sc>::of(*x)).collect();
    V::build(&s)
}
