"""Property table shared by ./check and the MANIFEST generator."""
ALL_IDS = [f"C{i:02d}" for i in range(1, 21)]
NOT_BUILT_REASON = {}

TRUST = "rustc's primitive float/integer semantics and glibc/libm (they are the oracle); rayon/stateright; NEON and wasm32 back-ends cannot be executed in this sandbox and are not covered"

PROPS = {
    "C01": {
        "quick": ["sse2", "scalar"], "thorough": ["sse2", "scalar", "coresimd", "fma", "libm"],
        "level": "exploration", "engine": "E1-sweep + E3-xcfg",
        "technique": "bounded exhaustive enumeration of operand lattices on the real code vs per-lane primitive (all 2^32 f32 patterns for unary ops in thorough)",
        "design_ref": "DESIGN.md §3 C01",
        "text": "Complete enumeration of indexed operand spaces (lane-isolation products of the special lattice, all pairs of the exponent x mantissa-shape grid, all 2^32 bit patterns through every lane for unary f32 ops in the thorough tier, a declared band sub-lattice in the quick tier) for every element-wise operation of the seven float vector types, each compared lane-wise with the Rust primitive, in every build configuration that runs here.",
        "note": TRUST + "; binary f32 pairs outside GRID^2 and f64 values outside the grid are not enumerated",
    },
    "C13": {
        "quick": ["sse2", "sse2-dbg"], "thorough": ["sse2", "sse2-dbg", "scalar"],
        "level": "exploration", "engine": "E1-sweep",
        "technique": "bounded exhaustive enumeration (all 65536 operand pairs for 8-bit types, boundary lattice pairs for wider) on the real code vs the primitive per lane, panic parity by execution in the same profile",
        "design_ref": "DESIGN.md §3 C13",
        "text": "For each of the 27 integer vector types every operator/method (vector, scalar, ref and assign forms, shifts by every count type, checked/wrapping/saturating incl. mixed signedness, reductions, Sum/Product) is executed under catch_unwind on complete operand products with lane isolation and compared with the primitive executed per lane in the same build profile (release and overflow-checking dev).",
        "note": TRUST + "; for 32/64-bit lanes only the boundary lattice (not all values) is enumerated; reductions accept either outcome only where some association overflows and another does not",
    },
    "C14": {
        "quick": ["sse2", "scalar"], "thorough": ["sse2", "scalar", "coresimd"],
        "level": "exploration", "engine": "E1-sweep",
        "technique": "inventory-driven exhaustive enumeration of source lane lattices for every conversion impl of the tree vs `as`/From/TryFrom per lane (all 2^32 f32 patterns for f32->int casts)",
        "design_ref": "DESIGN.md §3 C14",
        "text": "The list of as_* methods, From/TryFrom impls, extend/truncate is extracted from the working tree (880 conversions); each is run over the complete source lattice (all values of 8/16-bit sources, boundary lattices for wider ones, every f32 bit pattern for f32->integer casts) rotated through / isolated in every lane and compared with the primitive conversion; pure moves are compared bit-for-bit on tagged lanes.",
        "note": TRUST + "; raw-register conversions are excluded as the statement says; 32/64-bit and f64 sources are covered on boundary lattices only",
    },
    "C15": {
        "quick": ["sse2", "scalar"], "thorough": ["sse2", "scalar", "coresimd"],
        "level": "model_checking", "engine": "E2-stateright + E1-sweep",
        "technique": "explicit-state BFS to fixpoint over real mask operations with a [bool;N] reference model; exhaustive lattice enumeration for cmp*/select",
        "design_ref": "DESIGN.md §3 C15",
        "text": "Per mask type a stateright model (state = raw bytes of a real mask + [bool;N] reference; transitions set/&/|/^/! with all 2^N operands in operator and assign forms, xor with comparison results whose operands carry garbage hidden lanes) is explored to its fixpoint; the invariant checks every observer incl. panics on invalid indices in every state. cmp* of all 40 numeric vector types are enumerated on lattice^2 x lane isolation against the primitive comparison, select on all 2^N masks x tagged operands bit-for-bit.",
        "note": TRUST + "; the public u32 fields of the scalar-math BVec3A/BVec4A are not written directly (states reachable through the boolean API and comparisons only)",
    },
    "C16": {
        "quick": ["sse2", "scalar"], "thorough": ["sse2", "scalar", "coresimd"],
        "level": "exploration", "engine": "E1-sweep",
        "technique": "exhaustive enumeration of every swizzle method (generated from the trait definitions of the tree) x implementing type x tagged input rounds, expected lanes derived from the method name",
        "design_ref": "DESIGN.md §3 C16",
        "text": "All 28+117+336 getters and all with_ setters of the 34 implementing types are called (list generated from the working tree) on 8 input rounds of tagged lanes (distinct NaN payloads, -0, extremes, equal lanes), Vec3A additionally with 8 hidden-lane contents; result lanes must be bit-identical to the lanes spelled by the method name; result types are fixed by the trait signatures the glue is compiled against.",
        "note": TRUST + "; swizzles are pure data movement, so pairwise-distinct tagged lanes determine the permutation implemented",
    },
    "C17": {
        "quick": ["sse2", "scalar"], "thorough": ["sse2", "scalar", "coresimd"],
        "level": "model_checking", "engine": "E2-stateright",
        "technique": "explicit-state BFS to fixpoint: write histories through every mutable access path on the real value vs an array model, every read path checked in every state",
        "design_ref": "DESIGN.md §3 C17",
        "text": "For each of the 40 vector types, Quat and DQuat a stateright model whose states hold the raw bytes of the real value and the model lanes; initial states are all constructor paths and named constants, actions write a value of the alphabet to a lane through field/IndexMut/AsMut/with_*/&mut index; the search runs to the fixpoint (all histories of every length over the alphabet) and every read path incl. Debug/Display is compared with the model in every state.",
        "note": TRUST + "; lane values are limited to the write alphabet plus constructor tags and constants (the accessors are data movement, values are opaque to them)",
    },
    "C08": {
        "quick": ["sse2"], "thorough": ["sse2", "coresimd"],
        "level": "model_checking", "engine": "E2-stateright",
        "technique": "explicit-state BFS over twin registers (non-interference by self-composition): same real operation applied to two values equal in visible lanes and different in the hidden lane, observations compared bit-for-bit in every state",
        "design_ref": "DESIGN.md §3 C08",
        "text": "A stateright model whose state is a twin pair of real Vec3A/Mat3A/Affine3A/BVec3A registers with identical visible lanes and different hidden lanes (10 contents x 2 injection routes, plus whatever glam itself leaves there); each of ~190 public operations is applied to both twins with twin operand menus; the always-property demands bit-identical observations and visible result lanes; results are explored up to depth 3 (quick) / 4 (thorough).",
        "note": TRUST + "; the operation alphabet is hand-listed (names are in the evidence under extra.op_names); scalar-math has no hidden lane and is not checked",
    },
    "C06": {
        "quick": ["sse2", "scalar"], "thorough": ["sse2", "scalar", "coresimd"],
        "level": "exploration", "engine": "E1-sweep",
        "technique": "exhaustive enumeration of accessor/constructor x index pair x tag round on the real code vs index arithmetic (bits); product laws on complete small-integer grids (exact)",
        "design_ref": "DESIGN.md §3 C06",
        "text": "For all 11 matrix/affine types every accessor and constructor (from_cols*, to/from_cols_array(_2d), slices, AsRef/AsMut, col/col_mut/row, axis fields, from_diagonal, transpose, all (i,j) of the minor constructors) is run on entries tagged with pairwise distinct bit patterns and compared with the column-major index map bit-for-bit; M*v = sum v[c]*col(c), (A*B)*v = A*(B*v) and the affine point/vector laws are checked exactly on dense integer matrices x all grid vectors; thorough adds all 2^32 f32 patterns through every entry of the SIMD-packed layouts.",
        "note": TRUST + "; accessors are data movement, so distinct tags determine the permutation they implement",
    },
    "C03": {
        "quick": ["sse2", "scalar"], "thorough": ["sse2", "scalar", "coresimd"],
        "level": "exploration", "engine": "E1-sweep",
        "technique": "exhaustive small-integer grids vs exact integer reference (finite polynomial-identity test) plus enumerated real-matrix families vs f64 with a-priori forward-error envelopes",
        "design_ref": "DESIGN.md §3 C03",
        "text": "Determinant, transpose, adjugate/inverse on every matrix of the integer grids (2x2 [-8,8]^4, 3x3 [-2,2]^9, 4x4 {0,1}^16 quick / {-1,0,1}^16 thorough) and products on complete pair grids are compared exactly with i128 arithmetic - the kernels are polynomials of degree <= 1 per entry (<= 2 for mutants picking a wrong column), so agreement on these grids is an identity; real families (signed permutations, Q*D*Q^T with prescribed condition number up to 1e4/1e10, Hilbert, Vandermonde, three scalings) are compared with f64 references within K*eps*sum|terms| and inverse within the adj/det envelope and both residuals.",
        "note": TRUST + "; real inputs off the enumerated families are not covered; tolerance constants K = 2 x rounding depth are in the source with the observed/bound ratios reported in the evidence",
    },
    "C04": {
        "quick": ["sse2", "scalar"], "thorough": ["sse2", "scalar", "coresimd"],
        "level": "exploration", "engine": "E1-sweep",
        "technique": "exhaustive integer-quaternion grids vs exact Hamilton product / sandwich polynomial; enumerated unit-rotation family pairs vs f64 within K*eps envelopes",
        "design_ref": "DESIGN.md §3 C04",
        "text": "All 625^2 pairs of integer quaternions {-2..2}^4 for the Hamilton product (operator, method, assign, Product), conjugate, +, -, scalar ops, dot, length_squared, ==, and all (q, v) in {-2..2}^4 x {-1,0,1}^3 for q*v (Vec3 and Vec3A) are compared exactly with integer arithmetic (bilinear / polynomial identity); all pairs of a ROT sub-family x direction vectors check q*v against the f64 polynomial and rotation matrix, length preservation, associativity, inverse, -q within K*eps*|q|^2*|v|.",
        "note": TRUST + "; real inputs off the enumerated families are not covered",
    },
    "C02": {
        "quick": ["sse2", "scalar"], "thorough": ["sse2", "scalar", "coresimd", "libm"],
        "level": "exploration", "engine": "E1-sweep",
        "technique": "exhaustive integer grids (exact), enumerated direction-pair families x magnitude scales vs f64 within a-priori K*eps*sum|terms| envelopes, normalize family over the full special-value lattice with normal/fallback/slack classification",
        "design_ref": "DESIGN.md §3 C02",
        "text": "All pairs of integer vectors {-2..2}^N decide the polynomial kernels exactly; every base direction x 114 partners (other directions, nearly parallel / anti-parallel / cancellation perturbations) x 5 magnitude scale pairs is compared with an f64 reference within K*eps*sum of |terms| (K = 2 x rounding depth), refract on both sides of total internal reflection with the boundary slack accepted either way, angles against the well-conditioned atan2 form; every vector with lanes from the special lattice is classified from its exactly evaluated length into normal (unit result required), fallback (documented fallback required bit-for-bit) or slack (finiteness only).",
        "note": TRUST + "; an operation is judged only where every product of as many component magnitudes as its formula multiplies stays in the normal range (reading of 'whose products neither overflow nor underflow', see DESIGN); real inputs off the families are not covered",
    },
}
