"""Property table shared by ./check and the MANIFEST generator."""
ALL_IDS = [f"C{i:02d}" for i in range(1, 21)]
NOT_BUILT_REASON = {}

TRUST = "rustc's primitive float/integer semantics and glibc/libm (they are the oracle); rayon/stateright; NEON and wasm32 back-ends cannot be executed in this sandbox and are not covered"

PROPS = {
    "C01": {
        "quick": ["sse2", "scalar"], "thorough": ["sse2", "scalar", "coresimd", "fma", "libm"],
        "level": "exploration", "engine": "E1-sweep + E3-xcfg",
        "technique": "bounded exhaustive enumeration of operand lattices on the real code vs per-lane primitive (all 2^32 f32 patterns for unary ops in thorough)",
        "design_ref": "DESIGN.md §3 C01",
        "text": "Complete enumeration of indexed operand spaces (lane-isolation products of the special lattice, all pairs of the exponent x mantissa-shape grid, all 2^32 bit patterns through every lane for unary f32 ops in the thorough tier, a declared band sub-lattice in the quick tier) for every element-wise operation of the seven float vector types, each compared lane-wise with the Rust primitive, in every build configuration that runs here.",
        "note": TRUST + "; binary f32 pairs outside GRID^2 and f64 values outside the grid are not enumerated",
    },
}
