#!/bin/bash
# confirm.sh <ID> <k> (env CONFIRM_ARGS = extra cargo args for the demonstration, CONFIRM_RUSTFLAGS): independently confirm a seeded mutant in its scratch worktree:
# suite passes with the mutant; demo fails with it and passes without it.
ID=$1; K=$2; WT=/tmp/wt/$ID; M=$WT/out/m$K
export CARGO_NET_OFFLINE=true CARGO_TARGET_DIR=$WT/target
cd $WT || exit 9
git checkout -q -- . ; rm -f tests/demo_confirm.rs
git apply $M/patch.diff || { echo "APPLY_FAILED"; exit 8; }
cargo test --workspace --no-fail-fast --offline > $M/suite.log 2>&1; SUITE=$?
cp $M/demo.rs tests/demo_confirm.rs
RUSTFLAGS="$CONFIRM_RUSTFLAGS" cargo test --offline $CONFIRM_ARGS --test demo_confirm > $M/demo_with.log 2>&1; WITH=$?
git checkout -q -- .
RUSTFLAGS="$CONFIRM_RUSTFLAGS" cargo test --offline $CONFIRM_ARGS --test demo_confirm > $M/demo_without.log 2>&1; WITHOUT=$?
rm -f tests/demo_confirm.rs
echo "{\"suite_rc_with_mutant\": $SUITE, \"demo_rc_with_mutant\": $WITH, \"demo_rc_without\": $WITHOUT}" > $M/confirm.json
cat $M/confirm.json
