#!/bin/bash
# confirm.sh <ID> <k> [outdir]: independently confirm a seeded change in its scratch worktree /tmp/wt/<ID>:
# the repository's suite passes with the change; the demonstration fails with it and passes without it.
# Extra cargo arguments / RUSTFLAGS for the demonstration are taken from meta.json (demo_cargo_args,
# demo_rustflags) or from the environment (CONFIRM_ARGS, CONFIRM_RUSTFLAGS).
ID=$1; K=$2; WT=/tmp/wt/$ID; M=${3:-$WT/out/m$K}
export CARGO_NET_OFFLINE=true CARGO_TARGET_DIR=$WT/target
cd $WT || exit 9
A=${CONFIRM_ARGS:-$(python3 -c "import json;print(json.load(open('$M/meta.json')).get('demo_cargo_args',''))" 2>/dev/null)}
R=${CONFIRM_RUSTFLAGS:-$(python3 -c "import json;print(json.load(open('$M/meta.json')).get('demo_rustflags',''))" 2>/dev/null)}
# the core-simd back-end needs the nightly toolchain
TC=""; case "$A" in *core-simd*) TC="+nightly";; esac
git checkout -q -- . ; rm -f tests/demo_confirm.rs
git apply $M/patch.diff || { echo "APPLY_FAILED"; exit 8; }
cargo test --workspace --no-fail-fast --offline > $M/suite.log 2>&1; SUITE=$?
cp $M/demo.rs tests/demo_confirm.rs
RUSTFLAGS="$R" cargo $TC test --offline $A --test demo_confirm > $M/demo_with.log 2>&1; WITH=$?
git checkout -q -- .
RUSTFLAGS="$R" cargo $TC test --offline $A --test demo_confirm > $M/demo_without.log 2>&1; WITHOUT=$?
rm -f tests/demo_confirm.rs
echo "{\"suite_rc_with_mutant\": $SUITE, \"demo_rc_with_mutant\": $WITH, \"demo_rc_without\": $WITHOUT, \"demo_cargo_args\": \"$A\", \"demo_rustflags\": \"$R\"}" > $M/confirm.json
cat $M/confirm.json
