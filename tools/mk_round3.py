import json, os, subprocess
PROMPT = open('/verif/tools/subagent_prompt_round2.txt').read()
PROMPT = PROMPT.replace("This is a SECOND round:", "This is a THIRD round:")
PROMPT = PROMPT.replace("Aim for SUBTLE changes:", "Prefer places that a verification harness derived from the obvious reading of the property is least likely to look at: rarely used entry points of the same behaviour (trait impls such as Sum/Product, Index/IndexMut, AsRef/AsMut, From/Into for tuples and arrays, Deref, Default, Hash/PartialEq, Display/Debug with width/precision flags, named constants like ZERO/ONE/NEG_X/AXES/MIN/MAX/IDENTITY, `const fn` constructors, `*_slice` functions, the `_ref`/assign/scalar-on-the-left operator forms), code that only exists in a non-default build configuration the property mentions (`--features scalar-math`, nightly `cargo +nightly ... --features core-simd`, `--features glam-assert`, `--release` vs debug, optional crates features), the f64 / integer / less common dimension copy of a function, behaviour that needs two or three calls in sequence, or a special input class. Also aim for SUBTLE changes:")
EXTRA = {
 "C07": "- The property compares builds: default SSE2 vs `--features scalar-math` vs nightly `cargo +nightly test --features core-simd` vs RUSTFLAGS='-C target-feature=+fma,+avx2'. A mutant may live in any ONE of those configurations (then its demonstration compares against hard-coded expected values and needs demo_cargo_args / demo_rustflags).\n",
 "C13": "- Overflow behaviour differs between `cargo test` (debug profile, overflow checks on) and `--release`; say which profile the demonstration needs (demo_cargo_args).\n",
 "C19": "- Optional features: build/test with `--features serde,bytemuck,rkyv,mint` (serde_json etc. are available offline as dev-dependencies). The default suite does not compile them; the demonstration needs demo_cargo_args.\n",
 "C20": "- The assertions are enabled with `--features glam-assert` (demo_cargo_args).\n",
}
GEN = "- The scalar-math (`--features scalar-math`) and core-simd (`cargo +nightly ... --features core-simd`) back-ends can be built and tested here too; a mutant may live only there (then give demo_cargo_args, and for core-simd use `+nightly` in your own commands and say so in `needs`).\n"
props = {json.loads(l)['id']: json.loads(l) for l in open('/verif/properties.jsonl')}
os.makedirs('/tmp/wt', exist_ok=True)
for pid, p in props.items():
    wt = f'/tmp/wt/{pid}'
    if not os.path.exists(wt):
        subprocess.run(['git', '-C', '/repo', 'worktree', 'add', '--detach', wt, 'HEAD', '-q'], check=True)
    json.dump(p, open(f'/tmp/wt/{pid}.property.json', 'w'), indent=1)
    av = []
    for k in range(1, 9):
        m = f'/verif/seeded/{pid}-m{k}/meta.json'
        if os.path.exists(m):
            av.append('- ' + json.load(open(m))['summary'][:400].replace('\n', ' '))
    open(f'/tmp/wt/{pid}.avoid.txt', 'w').write('\n'.join(av) + '\n')
    extra = EXTRA.get(pid, '') + (GEN if pid in ('C01','C02','C03','C04','C06','C08','C12','C14','C15','C16','C17','C18') else '')
    open(f'/tmp/wt/{pid}.prompt.txt', 'w').write(PROMPT.replace('@ID@', pid).replace('@EXTRA@', extra))
print('ok')
