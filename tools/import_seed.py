#!/usr/bin/env python3
"""import_seed.py <ID> <k> <caught:true|false> <detail...>: copy a confirmed seeded change into /verif/seeded/"""
import json, os, shutil, sys
ID, k, caught = sys.argv[1], sys.argv[2], sys.argv[3] == "true"
detail = " ".join(sys.argv[4:])
src = f"/tmp/wt/{ID}/out/m{k}"
# later rounds are stored under the next free number
n = int(k)
while os.path.exists(f"/verif/seeded/{ID}-m{n}"):
    n += 1
dst = f"/verif/seeded/{ID}-m{n}"
os.makedirs(dst, exist_ok=True)
shutil.copy(f"{src}/patch.diff", f"{dst}/patch.diff")
shutil.copy(f"{src}/demo.rs", f"{dst}/demo.rs")
meta = json.load(open(f"{src}/meta.json"))
conf = json.load(open(f"{src}/confirm.json"))
meta["independently_confirmed"] = {
    "how": "tools/confirm.sh in a scratch worktree: full `cargo test --workspace --no-fail-fast --offline` with the change applied, then the demonstration with and without it",
    "suite_rc_with_change": conf["suite_rc_with_mutant"], "demo_rc_with_change": conf["demo_rc_with_mutant"], "demo_rc_without": conf["demo_rc_without"],
}
meta["check_run"] = {"command": f"tools/seedtest.sh {ID} /verif/seeded/{ID}-m{n}/patch.diff", "caught": caught, "detail": detail}
json.dump(meta, open(f"{dst}/meta.json", "w"), indent=1)
print("imported", dst)
