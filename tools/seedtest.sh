#!/bin/bash
# seedtest.sh <ID> <patch> [extra check args]: apply a seeded change to /repo, run the quick check, undo.
ID=$1; P=$2; shift 2
if [ -n "$(git -C /repo status --porcelain -- src templates)" ]; then echo "REPO NOT CLEAN"; exit 9; fi
git -C /repo apply $P || { echo APPLY_FAILED; exit 8; }
cd /verif && ./check $ID --tier quick "$@" > /tmp/seedtest_$ID.out 2>&1; RC=$?
git -C /repo checkout -- .
echo "rc=$RC violations=$(grep -c '^VIOLATION' /tmp/seedtest_$ID.out)"
grep -A1 '^VIOLATION' /tmp/seedtest_$ID.out | grep 'site=' | cut -c1-260 | head -${SHOW:-4}
