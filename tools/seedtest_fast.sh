#!/bin/bash
# seedtest_fast.sh <ID> <patch>: like seedtest.sh, but tries the default SSE2 configuration of the quick
# tier first and only runs the remaining quick configurations when that one does not report the change.
ID=$1; P=$2
if [ -n "$(git -C /repo status --porcelain -- src templates)" ]; then echo "REPO NOT CLEAN"; exit 9; fi
git -C /repo apply $P || { echo APPLY_FAILED; exit 8; }
FIRST=$(cd /verif && python3 -c "import props;print(props.PROPS['$ID']['quick'][0])")
cd /verif && ./check $ID --tier quick --cfg $FIRST > /tmp/seedtest_$ID.out 2>&1; RC=$?
HOW="$FIRST only"
if [ $RC -ne 1 ]; then ./check $ID --tier quick > /tmp/seedtest_$ID.out 2>&1; RC=$?; HOW="full quick tier"; fi
git -C /repo checkout -- .
echo "rc=$RC violations=$(grep -c '^VIOLATION' /tmp/seedtest_$ID.out) ($HOW)"
grep -A1 '^VIOLATION' /tmp/seedtest_$ID.out | grep 'site=' | cut -c1-260 | head -${SHOW:-4}
